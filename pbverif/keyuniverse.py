"""Universe of argument values for C06: value tokens = structurally distinct values (type-and-value equality),
each with several *presentations* that must not influence the key (dict insertion order, set construction order).

token -> Value(presentations: list of zero-argument builders, hash_sensitive: bool)
"""
from .values import Plain, Other

ATOMS = [('i0', 0), ('i1', 1), ('f15', 1.5), ('f1', 1.0), ('ss', 's'), ('st', 't'), ('bs', b's'), ('none', None),
         ('true', True), ('false', False), ('big', 2 ** 70), ('sempty', ''), ('uni', u'é中')]


def _dict_presentations(items):
    """items: list of (key, builder) -> builders of dicts with every insertion order (2 orders are enough)"""
    def fwd():
        return {k: b() for k, b in items}

    def rev():
        return {k: b() for k, b in reversed(items)}
    return [fwd, rev] if len(items) > 1 else [fwd]


def build(level='quick'):
    """returns dict token -> {'pres': [builders], 'hash_sensitive': bool}"""
    u = {}

    def add(tok, pres, hs=False):
        assert tok not in u
        u[tok] = {'pres': pres, 'hash_sensitive': hs}
    atoms = ATOMS if level != 'quick' else ATOMS[:10]
    for name, v in atoms:
        add(name, [lambda v=v: v])
    # texts that occur in interception keys themselves: alias names, the key prefix
    add('txt_alias_new', [lambda: 'the.alias.new'])
    add('txt_alias_plain', [lambda: 'the.alias.plain'])
    add('dict_alias_key', [lambda: {'the.alias.new': 'input: the.alias.plain args='}])
    add('plain_a1', [lambda: Plain(a=1)])
    add('other_a1', [lambda: Other(a=1)])
    add('plain_ab', [lambda: Plain(a=1, b=[1, 2]), lambda: Plain(b=[1, 2], a=1)])
    add('dict_a1', [lambda: {'a': 1}])
    # depth 1
    pairs = [('i1', 1), ('ss', 's'), ('none', None), ('true', True), ('f1', 1.0)]
    if level != 'quick':
        pairs += [('i0', 0), ('bs', b's'), ('f15', 1.5)]
    for n, v in pairs:
        add('list_' + n, [lambda v=v: [v]])
        add('tuple_' + n, [lambda v=v: (v,)])
        add('dictk_' + n, [lambda v=v: {'k': v}])
        add('set_' + n, [lambda v=v: {v}])
    for (n1, v1) in pairs:
        for (n2, v2) in pairs:
            if n1 == n2:
                continue
            add('list_%s_%s' % (n1, n2), [lambda a=v1, b=v2: [a, b]])
            if level != 'quick' or (n1, n2) in (('i1', 'ss'), ('ss', 'i1'), ('i1', 'true'), ('true', 'i1')):
                add('tuple_%s_%s' % (n1, n2), [lambda a=v1, b=v2: (a, b)])
            if n1 < n2:
                add('dict_%s_%s' % (n1, n2), _dict_presentations([('k', lambda a=v1: a), ('j', lambda b=v2: b)]))
                # sets: elements must be distinct as python values (1 == True == 1.0)
                if len({v1, v2}) == 2:
                    hs = any(isinstance(x, (str, bytes)) for x in (v1, v2))
                    add('set_%s_%s' % (n1, n2), [lambda a=v1, b=v2: {a, b}, lambda a=v1, b=v2: {b, a}], hs)
    add('set_ss_st', [lambda: {'s', 't'}, lambda: {'t', 's'}], True)
    add('set_ss_st_uni', [lambda: {'s', 't', u'é中', 'abc', 'zz'}, lambda: {'zz', 'abc', u'é中', 't', 's'}], True)
    add('set_ints', [lambda: {1, 2, 3, 100}, lambda: {100, 3, 2, 1}])
    # two ints that collide in the hash table of a small set (1 = 9 mod 8): iteration order = insertion order
    add('set_i1_i9', [lambda: {1, 9}, lambda: {9, 1}])
    # depth 2
    add('list_list_i1', [lambda: [[1]]])
    add('list_tuple_i1', [lambda: [(1,)]])
    add('tuple_list_i1', [lambda: ([1],)])
    add('dict_list', [lambda: {'k': [1, 's']}])
    add('dict_dict', _dict_presentations([('k', lambda: {'j': 1, 'i': 2}), ('a', lambda: {'i': 2, 'j': 1})]))
    add('list_dict2', [lambda: [{'k': 1, 'j': 2}], lambda: [{'j': 2, 'k': 1}]])
    add('dict_plain', [lambda: {'o': Plain(a=1)}])
    add('dict_other', [lambda: {'o': Other(a=1)}])
    add('list_set', [lambda: [{1, 2}], lambda: [{2, 1}]])
    add('dict_nested3', _dict_presentations([('z', lambda: [1, {'b': 2, 'a': (1, 2)}]), ('a', lambda: None)]))
    # large and deeply nested values (the bounds of section 3.2 say depth <= 2 for the systematic part; these few tokens
    # reach what only shows beyond a size or depth threshold)
    add('long_str', [lambda: 'x' * 700])
    add('long_str2', [lambda: 'x' * 699 + 'y'])
    add('very_long_str', [lambda: 'abcdefghij' * 400])          # 4 000 characters
    add('very_long_str2', [lambda: 'abcdefghij' * 399 + 'abcdefghiX'])
    add('long_list', [lambda: list(range(300))])
    add('deep_dict', [lambda: {'a': {'b': {'c': {'d': {'e': {'f': {'k': 1, 'j': 2}}}}}}},
                      lambda: {'a': {'b': {'c': {'d': {'e': {'f': {'j': 2, 'k': 1}}}}}}}])
    add('deep_obj', [lambda: [[[[[[Plain(a=1)]]]]]], lambda: [[[[[[Plain(a=1)]]]]]]])
    add('deep_obj_other', [lambda: [[[[[[Other(a=1)]]]]]]])
    # a token whose presentations iterate differently *in this process* although they are equal: sets whose element
    # hashes collide in the table (iteration order then depends on the construction history, not on the hash seed)
    for tok, d in u.items():
        d['insertion_sensitive'] = (not d['hash_sensitive'] and len(d['pres']) > 1
                                    and len(set(repr(b()) for b in d['pres'])) > 1)
    return u


def small():
    return ['i1', 'ss', 'dict_a1']
