"""Dispatch of ./check to the per-property modules, verdict printing, known-finding handling."""
import importlib
import json
import logging
import os
import sys

from . import findings
from .evidence import Report


def main(prop, tier, seed, replay):
    logging.disable(logging.CRITICAL)  # the repository logs every tolerated failure with a stack trace
    prop = prop.upper()
    if prop == 'SELFTEST':
        from . import selftest
        return selftest.main(tier, seed)
    mod = importlib.import_module('pbverif.props.%s' % prop.lower())
    rep = Report(prop, tier, seed)
    if replay:
        with open(replay) as f:
            body = json.load(f)
        ok = mod.replay(rep, body)
        print('REPLAY %s: %s' % (replay, 'property holds on this case' if ok else 'violation reproduced'))
        return 0 if ok else 1
    mod.run(rep, tier, seed)
    known = findings.known_for(prop)
    new = []
    for v in rep.violations:
        sig = v['what'].get('signature') if isinstance(v['what'], dict) else None
        if sig is not None and sig in known:
            if sig not in [k['key'] for k in rep.known]:
                rep.known.append({'key': sig, 'what': known[sig]['what'], 'replay': v['replay']})
        else:
            new.append(v)
    rep.violations = new
    path = rep.write()
    for k in rep.known:
        print('KNOWN-FINDING: property=%s %s [%s]' % (prop, k['what'], k['key']))
    for v in new[:20]:
        w = v['what']
        print('VIOLATION property=%s replay=%s' % (prop, v['replay']))
        print('  ' + (w.get('summary') if isinstance(w, dict) else str(w))[:400])
    print('%s %s tier=%s seed=%d: states=%d behaviours_replayed=%d accepted_traces=%d evaluations=%d violations=%d '
          'known=%d wall=%.1fs evidence=%s' % (prop, 'FAIL' if new else 'ok', tier, seed, rep.states, rep.traces,
                                               rep.accepted, rep.evaluations, len(new), len(rep.known),
                                               __import__('time').time() - rep.t0, path))
    return 1 if new else 0
