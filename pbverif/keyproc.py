"""Computes the real interception keys of a list of calls (C06).  Runs in-process and as a subprocess started with a
different PYTHONHASHSEED:  python -m pbverif.keyproc <level> <calls.json> <out.json>"""
import json
import logging
import sys

RES = {'param': 1}


def compute_keys(calls, level):
    from playback.tape_recorder import TapeRecorder, CapturedArg
    from playback.tape_cassettes.in_memory.in_memory_tape_cassette import InMemoryTapeCassette
    from .keyuniverse import build
    from .recbind import SpyCassette
    logging.disable(logging.CRITICAL)
    u = build(level)
    spy = SpyCassette(InMemoryTapeCassette())
    tr = TapeRecorder(spy)
    tr.enable_recording()
    funcs = {}

    def resolver(*a, **k):
        return {'who': RES['param']}
    for alias_kind in ('plain', 'res'):
        for static in (False, True):
            px, py = (0, 1) if static else (1, 2)
            caps = {'all': None, 'none': [], 'posx': [CapturedArg(px, 'x')], 'namek': [CapturedArg(None, 'k')],
                    'posx_namek': [CapturedArg(px, 'x'), CapturedArg(None, 'k')], 'posy': [CapturedArg(py, 'y')]}
            for cap, ca in caps.items():
                kw = dict(capture_args=ca)
                if alias_kind == 'res':
                    kw['alias_params_resolver'] = resolver
                    alias = 'the.alias.{who}'
                else:
                    alias = 'the.alias.plain'
                if static:
                    def f(x=None, y=None, k=None):
                        return 1
                    funcs[(alias_kind, static, cap)] = tr.static_intercept_input(alias, **kw)(f)
                else:
                    def g(self, x=None, y=None, k=None):
                        return 1
                    funcs[(alias_kind, static, cap)] = tr.intercept_input(alias, **kw)(g)

    class Op(object):
        @tr.operation()
        def execute(self, thunk):
            thunk(self)
            return None
    op = Op()
    keys = []
    for c in calls:
        alias_kind = 'plain' if c['alias'] == 'plain' else 'res'
        RES['param'] = 1 if c['alias'] != 'res2' else 2
        fn = funcs[(alias_kind, bool(c['static']), c['capture'])]
        p = c['pres']

        def val(tok):
            pres = u[tok]['pres']
            return pres[(p - 1) % len(pres)]()
        args = []
        kwargs = {}
        for name, how in (('x', c['px']), ('y', c['py']), ('k', c['pk'])):
            if how == 'pos':
                args.append(val(c[name]))
            elif how == 'kw':
                kwargs[name] = val(c[name])
        if p % 2 == 0:  # keyword insertion order is presentation too
            kwargs = dict(reversed(list(kwargs.items())))
        n0 = len(spy.created)
        if c['static']:
            op.execute(lambda self: fn(*args, **kwargs))
        else:
            op.execute(lambda self: fn(self, *args, **kwargs))
        rec = spy.created[n0] if len(spy.created) > n0 else None
        ks = [k for k in (rec.get_all_keys() if rec is not None else []) if str(k).startswith('input:')]
        keys.append(ks[0] if len(ks) == 1 else 'NOKEY:%r' % (ks,))
        del spy.created[:]
        del spy.log[:]
        store = getattr(spy.inner, '_recordings', None)     # (memory only: a cassette without that attribute just grows)
        if hasattr(store, 'clear'):
            store.clear()
    return keys


if __name__ == '__main__':
    level, inp, outp = sys.argv[1:4]
    with open(inp) as fh:
        calls = json.load(fh)
    with open(outp, 'w') as fh:
        json.dump(compute_keys(calls, level), fh)
