"""Parser for values as printed by TLC (state dumps, -simulate traces, PrintT output).

ints -> int, strings -> str, TRUE/FALSE -> bool, <<..>> -> tuple, {..} -> frozenset,
[a |-> ..] and (k :> v @@ ..) -> Rec (hashable dict), bare identifiers (model values) -> str.
"""


class Rec(dict):
    """Immutable-by-convention dict so that records can be members of sets / keys."""

    def __hash__(self):
        return hash(frozenset(self.items()))

    def __getattr__(self, item):
        try:
            return self[item]
        except KeyError:
            raise AttributeError(item)


class ParseError(ValueError):
    pass


import re as _re

_TOK = _re.compile(r'\s*(?:("(?:[^"\\]|\\.)*")|(-?\d+)|([A-Za-z_][A-Za-z0-9_]*)|(<<|>>|\|->|:>|@@|/\\|[\[\]{}(),=]))')
_ESC = _re.compile(r'\\(.)')
_ESCMAP = {'n': '\n', 't': '\t', 'r': '\r', 'f': '\f'}


def _unesc(m):
    c = m.group(1)
    return _ESCMAP.get(c, c)


def _tokens(text):
    """list of tokens: ('s', str) / ('n', int) / ('i', ident) / ('p', punct)"""
    out = []
    pos = 0
    n = len(text)
    match = _TOK.match
    while pos < n:
        m = match(text, pos)
        if m is None:
            if text[pos:].strip() == '':
                break
            raise ParseError('cannot tokenise at %d: %r' % (pos, text[pos:pos + 40]))
        pos = m.end()
        g = m.lastindex
        if g == 1:
            raw = m.group(1)[1:-1]
            out.append(('s', _ESC.sub(_unesc, raw) if '\\' in raw else raw))
        elif g == 2:
            out.append(('n', int(m.group(2))))
        elif g == 3:
            out.append(('i', m.group(3)))
        else:
            out.append(('p', m.group(4)))
    return out


class _P(object):
    def __init__(self, text):
        self.t = _tokens(text)
        self.i = 0
        self.n = len(self.t)

    def value(self):
        kind, v = self.t[self.i]
        self.i += 1
        if kind == 's' or kind == 'n':
            return v
        if kind == 'i':
            if v == 'TRUE':
                return True
            if v == 'FALSE':
                return False
            return v
        if v == '<<':
            return tuple(self.items('>>'))
        if v == '{':
            return frozenset(self.items('}'))
        if v == '[':
            return self.record()
        if v == '(':
            return self.function()
        raise ParseError('unexpected token %r at %d' % (v, self.i))

    def items(self, close):
        out = []
        t = self.t
        if t[self.i] == ('p', close):
            self.i += 1
            return out
        while True:
            out.append(self.value())
            tok = t[self.i]
            self.i += 1
            if tok == ('p', close):
                return out
            if tok != ('p', ','):
                raise ParseError('expected , or %s, got %r' % (close, tok))

    def record(self):
        r = Rec()
        t = self.t
        if t[self.i] == ('p', ']'):
            self.i += 1
            return r
        while True:
            name = t[self.i][1]
            if t[self.i + 1] != ('p', '|->'):
                raise ParseError('expected |-> after %r' % (name,))
            self.i += 2
            r[name] = self.value()
            tok = t[self.i]
            self.i += 1
            if tok == ('p', ']'):
                return r
            if tok != ('p', ','):
                raise ParseError('expected , or ], got %r' % (tok,))

    def function(self):
        r = Rec()
        t = self.t
        while True:
            k = self.value()
            if t[self.i] != ('p', ':>'):
                raise ParseError('expected :>, got %r' % (t[self.i],))
            self.i += 1
            r[k] = self.value()
            tok = t[self.i]
            self.i += 1
            if tok == ('p', ')'):
                return r
            if tok != ('p', '@@'):
                raise ParseError('expected @@ or ), got %r' % (tok,))


def parse_value(text):
    p = _P(text)
    v = p.value()
    if p.i != p.n:
        raise ParseError('trailing tokens: %r' % (p.t[p.i:p.i + 5],))
    return v


def parse_state(text):
    """Parse a conjunction '/\\ x = v\n/\\ y = w' (or a single 'x = v') into a dict."""
    p = _P(text)
    out = {}
    t = p.t
    while p.i < p.n:
        if t[p.i] == ('p', '/\\'):
            p.i += 1
        kind, name = t[p.i]
        if kind != 'i' or t[p.i + 1] != ('p', '='):
            raise ParseError('variable = expected, got %r' % (t[p.i:p.i + 2],))
        p.i += 2
        out[name] = p.value()
    return out


def to_tla(v):
    """Inverse of parse_value (for generating MC wrapper modules and trace constants)."""
    if isinstance(v, bool):
        return 'TRUE' if v else 'FALSE'
    if isinstance(v, int):
        return str(v)
    if isinstance(v, str):
        return '"' + v.replace('\\', '\\\\').replace('"', '\\"') + '"'
    if isinstance(v, (tuple, list)):
        return '<<' + ', '.join(to_tla(x) for x in v) + '>>'
    if isinstance(v, (set, frozenset)):
        return '{' + ', '.join(sorted(to_tla(x) for x in v)) + '}'
    if isinstance(v, dict):
        if not v:
            return '<<>>'
        if all(isinstance(k, str) and k.isidentifier() for k in v):
            return '[' + ', '.join('%s |-> %s' % (k, to_tla(x)) for k, x in v.items()) + ']'
        return '(' + ' @@ '.join('%s :> %s' % (to_tla(k), to_tla(x)) for k, x in v.items()) + ')'
    raise TypeError(type(v))


def to_py(v):
    """Deep-convert parsed values to plain JSON-able python (sets -> sorted lists)."""
    if isinstance(v, dict):
        return {str(k) if not isinstance(k, str) else k: to_py(x) for k, x in v.items()}
    if isinstance(v, tuple):
        return [to_py(x) for x in v]
    if isinstance(v, frozenset):
        return sorted((to_py(x) for x in v), key=repr)
    return v


def to_json(v):
    """Lossless JSON encoding of parsed values (tuples, sets and functions with non-string keys are tagged)."""
    if isinstance(v, dict):
        if all(isinstance(k, str) for k in v):
            return {'__r': {k: to_json(x) for k, x in v.items()}}
        return {'__f': [[to_json(k), to_json(x)] for k, x in v.items()]}
    if isinstance(v, (tuple, list)):
        return {'__t': [to_json(x) for x in v]}
    if isinstance(v, (set, frozenset)):
        return {'__s': sorted((to_json(x) for x in v), key=repr)}
    return v


def from_json(j):
    if isinstance(j, dict):
        if '__r' in j:
            return Rec((k, from_json(x)) for k, x in j['__r'].items())
        if '__f' in j:
            return Rec((from_json(k), from_json(x)) for k, x in j['__f'])
        if '__t' in j:
            return tuple(from_json(x) for x in j['__t'])
        if '__s' in j:
            return frozenset(from_json(x) for x in j['__s'])
        raise ValueError(j)
    return j
