"""Parser for values as printed by TLC (state dumps, -simulate traces, PrintT output).

ints -> int, strings -> str, TRUE/FALSE -> bool, <<..>> -> tuple, {..} -> frozenset,
[a |-> ..] and (k :> v @@ ..) -> Rec (hashable dict), bare identifiers (model values) -> str.
"""


class Rec(dict):
    """Immutable-by-convention dict so that records can be members of sets / keys."""

    def __hash__(self):
        return hash(frozenset(self.items()))

    def __getattr__(self, item):
        try:
            return self[item]
        except KeyError:
            raise AttributeError(item)


class ParseError(ValueError):
    pass


class _P(object):
    def __init__(self, s):
        self.s = s
        self.i = 0
        self.n = len(s)

    def ws(self):
        s, n = self.s, self.n
        while self.i < n and s[self.i] in ' \t\r\n':
            self.i += 1

    def peek(self, k=1):
        return self.s[self.i:self.i + k]

    def expect(self, tok):
        self.ws()
        if not self.s.startswith(tok, self.i):
            raise ParseError('expected %r at %d: %r' % (tok, self.i, self.s[max(0, self.i - 20):self.i + 20]))
        self.i += len(tok)

    def value(self):
        self.ws()
        s = self.s
        c = s[self.i] if self.i < self.n else ''
        if c == '"':
            return self.string()
        if c == '<' and self.peek(2) == '<<':
            self.i += 2
            items = self.items('>>')
            return tuple(items)
        if c == '{':
            self.i += 1
            return frozenset(self.items('}'))
        if c == '[':
            self.i += 1
            return self.record()
        if c == '(':
            self.i += 1
            return self.function()
        if c == '-' or c.isdigit():
            j = self.i + 1
            while j < self.n and s[j].isdigit():
                j += 1
            v = int(s[self.i:j])
            self.i = j
            return v
        if c.isalpha() or c == '_':
            j = self.i
            while j < self.n and (s[j].isalnum() or s[j] == '_'):
                j += 1
            w = s[self.i:j]
            self.i = j
            if w == 'TRUE':
                return True
            if w == 'FALSE':
                return False
            return w
        raise ParseError('unexpected %r at %d: %r' % (c, self.i, s[max(0, self.i - 20):self.i + 20]))

    def string(self):
        s = self.s
        assert s[self.i] == '"'
        j = self.i + 1
        out = []
        while True:
            c = s[j]
            if c == '\\':
                nx = s[j + 1]
                out.append({'n': '\n', 't': '\t', 'r': '\r', 'f': '\f'}.get(nx, nx))
                j += 2
            elif c == '"':
                break
            else:
                out.append(c)
                j += 1
        self.i = j + 1
        return ''.join(out)

    def items(self, close):
        out = []
        self.ws()
        if self.s.startswith(close, self.i):
            self.i += len(close)
            return out
        while True:
            out.append(self.value())
            self.ws()
            if self.s.startswith(close, self.i):
                self.i += len(close)
                return out
            self.expect(',')

    def record(self):
        r = Rec()
        self.ws()
        if self.peek() == ']':
            self.i += 1
            return r
        while True:
            self.ws()
            j = self.i
            while j < self.n and (self.s[j].isalnum() or self.s[j] == '_'):
                j += 1
            name = self.s[self.i:j]
            self.i = j
            self.expect('|->')
            r[name] = self.value()
            self.ws()
            if self.peek() == ']':
                self.i += 1
                return r
            self.expect(',')

    def function(self):
        r = Rec()
        while True:
            k = self.value()
            self.expect(':>')
            r[k] = self.value()
            self.ws()
            if self.peek() == ')':
                self.i += 1
                return r
            self.expect('@@')


def parse_value(text):
    p = _P(text)
    v = p.value()
    p.ws()
    if p.i != p.n:
        raise ParseError('trailing text at %d: %r' % (p.i, text[p.i:p.i + 40]))
    return v


def parse_state(text):
    """Parse a conjunction '/\\ x = v\n/\\ y = w' (or a single 'x = v') into a dict."""
    p = _P(text)
    out = {}
    while True:
        p.ws()
        if p.i >= p.n:
            break
        if p.s.startswith('/\\', p.i):
            p.i += 2
        p.ws()
        j = p.i
        while j < p.n and (p.s[j].isalnum() or p.s[j] == '_'):
            j += 1
        name = p.s[p.i:j]
        if not name:
            raise ParseError('variable name expected at %d: %r' % (p.i, p.s[p.i:p.i + 30]))
        p.i = j
        p.expect('=')
        out[name] = p.value()
    return out


def to_tla(v):
    """Inverse of parse_value (for generating MC wrapper modules and trace constants)."""
    if isinstance(v, bool):
        return 'TRUE' if v else 'FALSE'
    if isinstance(v, int):
        return str(v)
    if isinstance(v, str):
        return '"' + v.replace('\\', '\\\\').replace('"', '\\"') + '"'
    if isinstance(v, (tuple, list)):
        return '<<' + ', '.join(to_tla(x) for x in v) + '>>'
    if isinstance(v, (set, frozenset)):
        return '{' + ', '.join(sorted(to_tla(x) for x in v)) + '}'
    if isinstance(v, dict):
        if not v:
            return '<<>>'
        if all(isinstance(k, str) and k.isidentifier() for k in v):
            return '[' + ', '.join('%s |-> %s' % (k, to_tla(x)) for k, x in v.items()) + ']'
        return '(' + ' @@ '.join('%s :> %s' % (to_tla(k), to_tla(x)) for k, x in v.items()) + ')'
    raise TypeError(type(v))


def to_py(v):
    """Deep-convert parsed values to plain JSON-able python (sets -> sorted lists)."""
    if isinstance(v, dict):
        return {str(k) if not isinstance(k, str) else k: to_py(x) for k, x in v.items()}
    if isinstance(v, tuple):
        return [to_py(x) for x in v]
    if isinstance(v, frozenset):
        return sorted((to_py(x) for x in v), key=repr)
    return v


def to_json(v):
    """Lossless JSON encoding of parsed values (tuples, sets and functions with non-string keys are tagged)."""
    if isinstance(v, dict):
        if all(isinstance(k, str) for k in v):
            return {'__r': {k: to_json(x) for k, x in v.items()}}
        return {'__f': [[to_json(k), to_json(x)] for k, x in v.items()]}
    if isinstance(v, (tuple, list)):
        return {'__t': [to_json(x) for x in v]}
    if isinstance(v, (set, frozenset)):
        return {'__s': sorted((to_json(x) for x in v), key=repr)}
    return v


def from_json(j):
    if isinstance(j, dict):
        if '__r' in j:
            return Rec((k, from_json(x)) for k, x in j['__r'].items())
        if '__f' in j:
            return Rec((from_json(k), from_json(x)) for k, x in j['__f'])
        if '__t' in j:
            return tuple(from_json(x) for x in j['__t'])
        if '__s' in j:
            return frozenset(from_json(x) for x in j['__s'])
        raise ValueError(j)
    return j
