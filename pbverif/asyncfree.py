"""Free-running workloads on the real AsyncRecordOnlyTapeCassette with real threads (run as a subprocess with
PLAYBACK_VERIF_TRACE set, so that the guarded hooks log every enqueue / applied / closed under the cassette's own
lock).  Prints, per workload, whether the stored recordings equal those of the synchronous twin.

    python -m pbverif.asyncfree <seed> <workloads>
"""
import json
import random
import sys
import threading
import time


REWRITES = [1, True, 1.0, 0, False, 0.0, 'x', [1], [True]]


def typed(x):
    """value with its types made explicit (1, True and 1.0 are different recorded values)"""
    if isinstance(x, dict):
        return ('dict', sorted((k, typed(v)) for k, v in x.items()))
    if isinstance(x, (list, tuple)):
        return (type(x).__name__, [typed(v) for v in x])
    return (type(x).__name__, repr(x))


def main(seed, n):
    from playback.tape_cassettes.asynchronous.async_record_only_tape_cassette import AsyncRecordOnlyTapeCassette
    from playback.tape_cassettes.in_memory.in_memory_tape_cassette import InMemoryTapeCassette
    rnd = random.Random(seed)
    results = []
    for w in range(n):
        inner = InMemoryTapeCassette()
        twin = InMemoryTapeCassette()
        cas = AsyncRecordOnlyTapeCassette(inner, flush_interval=rnd.choice([0.0005, 0.002, 0.01]), timeout_on_close=30)
        cas.start()
        nprod = rnd.randrange(1, 4)
        scripts = []
        for p in range(nprod):
            ops = []
            for k in range(rnd.randrange(1, 6)):
                ops.append(rnd.choice(['set', 'set', 'meta', 'rewrite']))
            ops.append('save')
            scripts.append(ops)
        expected = {}

        def producer(p, ops, delays):
            r = cas.create_new_recording('Cat%d' % p)
            t = twin.create_new_recording('Cat%d' % p)
            for i, (op, d) in enumerate(zip(ops, delays)):
                if d:
                    time.sleep(d)
                if op == 'set':
                    r.set_data('k%d' % i, {'v': [p, i]})
                    t.set_data('k%d' % i, {'v': [p, i]})
                elif op == 'meta':
                    r.add_metadata({'m%d' % i: i})
                    t.add_metadata({'m%d' % i: i})
                elif op == 'rewrite':
                    # one key written again and again, with values that are equal (==) but not the same: the last write wins
                    v = REWRITES[(p + i) % len(REWRITES)]
                    r.set_data('again', v)
                    t.set_data('again', v)
                else:
                    cas.save_recording(r)
                    twin.save_recording(t)
            expected[r.id] = t.id
        threads = [threading.Thread(target=producer, args=(p, ops, [rnd.choice([0, 0, 0.0003, 0.002]) for _ in ops]))
                   for p, ops in enumerate(scripts)]
        for t in threads:
            t.start()
        for t in threads:
            t.join()
        cas.close()
        ok = True
        for rid, tid in expected.items():
            try:
                a = inner.get_recording(rid)
                b = twin.get_recording(tid)
                if typed(a.recording_data) != typed(b.recording_data) or typed(a.recording_metadata) != typed(b.recording_metadata):
                    ok = False
            except Exception:
                ok = False
        if sorted(inner.get_all_recording_ids()) != sorted(expected):
            ok = False
        results.append(ok)
    print(json.dumps({'workloads': n, 'equal_to_synchronous_twin': sum(results), 'all_equal': all(results)}))


if __name__ == '__main__':
    main(int(sys.argv[1]), int(sys.argv[2]))
