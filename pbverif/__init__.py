"""Harness binding the TLA+ specifications in /verif/spec to Optibus/playback (see DESIGN.md)."""
