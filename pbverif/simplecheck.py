"""Helpers shared by the checks whose specification is combinational or small (no scripted operations)."""
import os

from . import tlc


def dump_states(rep, module, cfg, name=None, scratch=None, keep=None, max_states=400000, timeout=1800):
    """Run TLC on spec/<module>.tla with <cfg>, dump the state graph; returns (graph, TLCResult).

    A violated invariant of the specification is reported as a violation of the design."""
    own = scratch is None
    scratch = scratch or tlc.Scratch()
    try:
        r, g = tlc.dump_graph(scratch, module, cfg, keep=keep, max_states=max_states, timeout=timeout)
        rep.add_tlc(name or cfg, r)
        if r.violation:
            rep.violation({'summary': 'TLC: %s violated on %s/%s' % (r.violation, module, cfg),
                           'signature': 'tlc:%s:%s' % (module, r.violation),
                           'trace': [repr(s)[:400] for s in r.error_trace]})
            return None, r
        # force parsing now: the scratch directory (and the raw labels) go away
        for n in list(g.states):
            g.states[n]
        return g, r
    finally:
        if own:
            scratch.close()


def run_tlc_only(rep, module, cfg, name=None, expect=None, timeout=1800, scratch=None, workers=None):
    own = scratch is None
    scratch = scratch or tlc.Scratch()
    try:
        r = tlc.run_tlc(scratch, module, cfg, timeout=timeout, workers=workers)
        rep.add_tlc(name or cfg, r)
        if expect is not None:
            rep.extra.setdefault('design_counterexamples', []).append(
                {'config': name or cfg, 'expected_violation': expect, 'tlc_violation': r.violation,
                 'last_state': repr(r.error_trace[-1])[:600] if r.error_trace else None})
            if r.violation != expect:
                raise tlc.TLCError('%s/%s: expected TLC to violate %s, got %r' % (module, cfg, expect, r.violation))
        elif r.violation:
            rep.violation({'summary': 'TLC: %s violated on %s/%s' % (r.violation, module, cfg),
                           'signature': 'tlc:%s:%s' % (module, r.violation),
                           'trace': [repr(s)[:400] for s in r.error_trace]})
        return r
    finally:
        if own:
            scratch.close()
