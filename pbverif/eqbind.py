"""Binding of spec/Equalizer.tla to the real playback.studio.equalizer.Equalizer (C08, C13).

Dedicated-process mode runs the parent generator and the real _playback_process_target as participants of the
deterministic scheduler over fake multiprocessing / time / os.kill (everything crossing a queue is pickled);
in-process mode runs the real code directly.
"""
import gc
import pickle

from .detsched import Scheduler, make_mp, make_time, Deadlock, StepLimit, Killed

TIMEOUT = 2.0


class FakeRecording(object):
    def __init__(self, rid):
        self.id = rid


class FakePlayback(object):
    """picklable stand-in for playback.tape_recorder.Playback"""

    def __init__(self, rid, k, b):
        self.original_recording = FakeRecording(rid)
        self.recorded_outputs = ('rec', k, b)
        self.playback_outputs = ('pb', k, b)
        self.playback_duration = 0.0
        self.recorded_duration = 0.0


class Unrebuildable(Exception):
    """pickles in the worker, cannot be rebuilt by the parent (mandatory two-argument constructor)"""

    def __init__(self, a, b):
        super(Unrebuildable, self).__init__('unrebuildable %s' % (a,))
        self.a, self.b = a, b


class Undescribable(Exception):
    """a failure whose description cannot be built: the worker cannot wrap it into a failure result"""

    def __str__(self):
        raise RuntimeError('cannot describe the failure')


class _Exit(BaseException):
    """the worker process exits (sys.exit inside the replayed code)"""


def project(c, ids):
    from playback.studio.equalizer import EqualityStatus
    st = c.comparator_status.equality_status
    if st == EqualityStatus.EqualizerFailure:
        msg = (c.comparator_status.message or '')
        if 'died' in msg:
            v = 'FailureDied'
        elif 'timeout' in msg:
            v = 'FailureTimeout'
        else:
            v = 'Failure'
    else:
        v = st.name
    att = 0
    if c.playback is not None:
        rid = c.playback.original_recording.id
        att = ids.index(rid) + 1 if rid in ids else -1
    rid = c.recording_id
    # results kept in the comparison (keep_results_in_comparison): the extractor's outputs of *this* recording, or nothing
    kept = None
    if c.expected is not None or c.actual is not None:
        try:
            kept = (c.expected[0] == 'rec' and c.actual[0] == 'pb' and c.expected[1] == c.actual[1]) and c.expected[1]
        except Exception:
            kept = -1
    return {'id': ids.index(rid) + 1 if rid in ids else -1, 'verdict': v, 'attached': att, 'kept': kept}


def make_functions(beh, ids, sched=None, state=None):
    from playback.studio.equalizer import ComparatorResult, EqualityStatus

    def player(recording_id):
        k = ids.index(recording_id) + 1
        b = beh[k - 1]
        if state is not None:
            state['playing'][k] = sched.clock
        if b == 'playerRaises':
            raise ValueError('scripted player failure for %s' % recording_id)
        if b == 'reportRaises':
            raise Undescribable()
        if b == 'exits':
            raise _Exit()
        if b == 'hangs':
            sched.block_until(lambda: False, None, 'hang')
        if b == 'late':
            sched.block_until(lambda: state['gave_up'](k), None, 'late')
        pb = FakePlayback(recording_id, k, b)
        if b == 'idleExit' and state is not None:
            # the worker answers this recording and then dies while idle: at its next look at the task queue
            state['idle_exit'] = sched.me().name
        if b == 'unreadable':
            pb.extra = Unrebuildable(k, 'x')
        return pb

    def extractor(outputs):
        if outputs[2] == 'extractorRaises':
            raise KeyError('scripted extractor failure')
        return outputs

    def comparator(recorded, played):
        b = recorded[2]
        if b == 'comparatorRaises':
            raise RuntimeError('scripted comparator failure')
        if b == 'bare':
            return EqualityStatus.Equal
        if b == 'different':
            return ComparatorResult(EqualityStatus.Different, 'differs')
        return ComparatorResult(EqualityStatus.Equal)
    return player, extractor, comparator


def make_data_extractor(beh, ids):
    """the optional comparison_data_extractor: extra comparator arguments taken from the recording; it may fail too"""
    def data_extractor(recording):
        k = ids.index(recording.id) + 1
        if beh[k - 1] == 'dataRaises':
            raise LookupError('scripted comparison data extractor failure')
        return {}
    return data_extractor


def run_inprocess(beh, keep_results):
    from playback.studio.equalizer import Equalizer, CompareExecutionConfig
    ids = ['Cat/r%d' % (k + 1) for k in range(len(beh))]
    player, extractor, comparator = make_functions(beh, ids)
    eq = Equalizer(iter(ids), player, extractor, comparator, comparison_data_extractor=make_data_extractor(beh, ids),
                   compare_execution_config=CompareExecutionConfig(keep_results_in_comparison=keep_results,
                                                                   compare_in_dedicated_process=False))
    return [project(c, ids) for c in eq.run_comparison()]


def run_inprocess_real(beh, keep_results):
    """In-process comparison where the player is the *real* TapeRecorder.play over recordings made by the real
    recorder (one recorder for the whole run, as the studio uses it): 'different' is a genuine difference of the
    replayed outputs, a failing player raises *after* the replayed operation has sent its outputs."""
    from playback.studio.equalizer import Equalizer, CompareExecutionConfig, ComparatorResult, EqualityStatus
    from playback.tape_recorder import TapeRecorder
    from playback.tape_cassettes.in_memory.in_memory_tape_cassette import InMemoryTapeCassette
    import pbverif.opclasses as oc
    cassette = InMemoryTapeCassette()
    tr = TapeRecorder(cassette)
    tr.enable_recording()
    cur = {'k': 0, 'changed': False}

    class EqOp(object):
        @tr.operation()
        def execute(self):
            v = self.inp()
            self.out(('sent', v, 'changed' if cur['changed'] else 'same'))
            self.out(('second', v))
            return ('result', v)

        @tr.intercept_input('eq_in')
        def inp(self):
            return cur['k']

        @tr.intercept_output('eq_out')
        def out(self, payload):
            return None
    EqOp.__module__ = oc.__name__
    EqOp.__qualname__ = EqOp.__name__ = 'EqOp_%d' % (id(EqOp) % 1000003)
    setattr(oc, EqOp.__name__, EqOp)
    ids = []
    for k in range(1, len(beh) + 1):
        cur['k'] = k
        EqOp().execute()
        ids.append(cassette.get_last_recording_id())
    cur['k'] = -1
    tr.disable_recording()

    def kof(outputs):
        for o in outputs:
            if 'eq_out' in o.key and o.value['args'][0][0] == 'sent':
                return o.value['args'][0][1]
        return 0

    def player(recording_id):
        k = ids.index(recording_id) + 1
        b = beh[k - 1]
        cur['changed'] = (b == 'different')

        def fn(recording):
            r = EqOp().execute()
            if b == 'playerRaises':
                raise ValueError('scripted failure of the playback function after the operation replayed')
            if b == 'reportRaises':
                raise Undescribable()
            return r
        try:
            return tr.play(recording_id, fn)
        finally:
            cur['changed'] = False

    def extractor(outputs):
        k = kof(outputs)
        if k and beh[k - 1] == 'extractorRaises':
            raise KeyError('scripted extractor failure')
        return sorted((o.key, repr(o.value)) for o in outputs)   # recorded outputs come in key order, replayed ones in call order

    def comparator(recorded, played):
        k = 0
        for key, val in recorded:
            if 'eq_out' in key and "'sent'" in val:
                k = int(val.split("'sent', ")[1].split(',')[0])
        b = beh[k - 1] if k else ''
        if b == 'comparatorRaises':
            raise RuntimeError('scripted comparator failure')
        same = recorded == played
        if b == 'bare':
            return EqualityStatus.Equal if same else EqualityStatus.Different
        return ComparatorResult(EqualityStatus.Equal if same else EqualityStatus.Different)
    eq = Equalizer(iter(ids), player, extractor, comparator, comparison_data_extractor=make_data_extractor(beh, ids),
                   compare_execution_config=CompareExecutionConfig(keep_results_in_comparison=keep_results,
                                                                   compare_in_dedicated_process=False))
    out = []
    for c in eq.run_comparison():
        st = c.comparator_status.equality_status
        v = 'Failure' if st == EqualityStatus.EqualizerFailure else st.name
        att = 0
        pure = True
        if c.playback is not None:
            rid = c.playback.original_recording.id
            att = ids.index(rid) + 1 if rid in ids else -1
            # the attached replay holds the outputs of this replay alone: two eq_out calls of this recording + the result
            ks = [o.value['args'][0][1] for o in c.playback.playback_outputs if 'eq_out' in o.key]
            pure = ks == [att, att] and len(c.playback.playback_outputs) == 3
        out.append({'id': ids.index(c.recording_id) + 1 if c.recording_id in ids else -1, 'verdict': v, 'attached': att,
                    'pure': pure})
    return out


def run_dedicated(beh, rate, stop, late_wins, keep_results, abandon='close', max_steps=40000):
    """returns dict(out, violations, served, clock_per_id, leak, log)"""
    import playback.studio.equalizer as eqm
    ids = ['Cat/r%d' % (k + 1) for k in range(len(beh))]
    state = {'playing': {}, 'gave_up': None}
    res = {'out': [], 'violations': [], 'served': {}, 'waits': [], 'drift': 0}

    def chooser(enabled, sched):
        runs = [n for n, h in enabled if h == 'run']
        if runs:
            workers = [n for n in runs if n.startswith('worker')]
            # the late-answer race: worker's answer and parent's kill are both possible
            late = [n for n in workers if sched.parts[n].label == 'late']
            if late and 'parent' in runs:
                k = max(state['playing']) if state['playing'] else 0
                return (late[0], 'run') if late_wins.get(k, False) else ('parent', 'run')
            if workers:
                return (workers[0], 'run')  # a worker that can move does so before time passes for the parent
            return (runs[0], 'run')
        return enabled[0]

    sched = Scheduler(chooser, urgency=True, max_steps=max_steps)
    mpf, kill = make_mp(sched)
    plain_get = mpf.Queue.get

    def get_or_die(self, block=True, timeout=None):
        me = sched.me()
        if me is not None and me.name == state.get('idle_exit'):
            state['idle_exit'] = None
            me.kill_requested = False
            raise Killed()          # the worker process is gone, between two tasks
        return plain_get(self, block, timeout)
    mpf.Queue.get = get_or_die
    time_fn, _sleep = make_time(sched)

    def gave_up(k):
        p = sched.parts.get('parent')
        return p is not None and p.label in ('process.is_alive', 'os.kill') and \
            sched.clock - state['playing'].get(k, sched.clock) > TIMEOUT
    state['gave_up'] = gave_up

    class FakeOS(object):
        def __init__(self, real):
            self._real = real

        def __getattr__(self, item):
            return getattr(self._real, item)

        def kill(self, pid, sig):
            return kill(pid, sig)

    # the fakes are installed as the module-level names the module under test imported (whatever it imported) and, for
    # os.kill, in the os module itself, for the duration of this scenario
    import os as _os
    import time as _time
    saved = {}
    for nm, fake in (('mp', mpf), ('multiprocessing', mpf), ('time', time_fn), ('os', FakeOS(_os))):
        if hasattr(eqm, nm):
            saved[nm] = getattr(eqm, nm)
            setattr(eqm, nm, fake)
    real_kill = _os.kill
    _os.kill = kill
    try:
        player, extractor, comparator = make_functions(beh, ids, sched, state)

        def safe_player(rid):
            try:
                return player(rid)
            except _Exit:
                # the process dies: unwind this participant without touching anything else
                me = sched.me()
                me.kill_requested = False
                raise Killed()
        eq = eqm.Equalizer(iter(ids), safe_player, extractor, comparator,
                           comparison_data_extractor=make_data_extractor(beh, ids),
                           compare_execution_config=eqm.CompareExecutionConfig(
                               keep_results_in_comparison=keep_results, compare_in_dedicated_process=True,
                               compare_process_recycle_rate=rate, compare_process_timeout=TIMEOUT))

        def parent():
            gen = eq.run_comparison()
            t_prev = sched.clock
            n = 0
            try:
                for c in gen:
                    n += 1
                    res['out'].append(project(c, ids))
                    res['waits'].append(sched.clock - t_prev)
                    t_prev = sched.clock
                    if n >= stop:
                        break
            finally:
                if abandon == 'close':
                    gen.close()
                else:
                    del gen
                    gc.collect()
        sched.spawn('parent', parent)
        try:
            sched.run()
        except StepLimit as ex:
            res['violations'].append('the run does not end / a worker is left behind: %s' % str(ex)[:300])
        except Deadlock as ex:
            res['violations'].append('deadlock: %s' % str(ex)[:300])
        pp = sched.parts.get('parent')
        if pp is not None and pp.exc is not None:
            res['violations'].append('parent raised %r' % (pp.exc,))
        for n, p in sched.parts.items():
            if n.startswith('worker'):
                if p.state not in ('done', 'killed'):
                    res['violations'].append('worker %s still alive after the run (%s at %s)' % (n, p.state, p.label))
                if p.exc is not None and not isinstance(p.exc, Killed):
                    res['violations'].append('worker %s raised %r' % (n, p.exc))
        # tasks served per worker
        tq = {}
        for e in sched.log:
            if e['e'] == 'get' and e['by'].startswith('worker'):
                tq[e['by']] = tq.get(e['by'], 0) + 1
        res['served'] = tq
        res['log'] = [dict((k, v) for k, v in e.items() if k != 't') for e in sched.log]
        res['steps'] = sched.steps
    finally:
        for nm, v in saved.items():
            setattr(eqm, nm, v)
        _os.kill = real_kill
        sched.shutdown()
    return res


def impl_events(log, out):
    """scheduler log of one dedicated-process run -> events of spec/EqualizerImplTrace.tla"""
    gens = {}
    ev = []
    started = False
    taskq = {}     # worker -> its task queue (the first queue it gets from)
    n = len(log)
    for i, e in enumerate(log):
        by, k = e['by'], e['e']
        if by == 'parent':
            if k == 'proc_start':
                gens['worker%d' % e['pid']] = len(gens) + 1
                started = True
            elif k == 'put':
                ev.append({'e': 'prepare', 'new': started})
                started = False
            elif k == 'get':
                ev.append({'e': 'got'})
            elif k == 'kill':
                ev.append({'e': 'kill'})
            elif k == 'set':
                nxt = [x for x in log[i + 1:] if x['by'] == 'parent']
                if not (nxt and nxt[0]['e'] == 'proc_joined'):
                    ev.append({'e': 'finally'})
        elif by.startswith('worker'):
            g = gens.get(by, 0)
            if k == 'get':
                ev.append({'e': 'take', 'g': g})
            elif k == 'put':
                ev.append({'e': 'answer', 'g': g, 'ok': bool(e.get('flag', True))})
    ev.append({'e': 'out', 'verdicts': [o['verdict'] for o in out]})
    return ev


def expected_out(model_out, beh, keep_results):
    out = []
    for o in model_out:
        att = o['attached']
        if keep_results and beh[o['id'] - 1] == 'extractorRaises':
            att = 0  # the parent extracts again to keep the results and fails: the comparison carries no replay
        # with keep_results the comparison carries the extracted results of this very recording, otherwise nothing
        kept = o['id'] if (keep_results and att != 0) else None
        out.append({'id': o['id'], 'verdict': {'Failure': 'Failure'}.get(o['verdict'], o['verdict']), 'attached': att,
                    'kept': kept})
    return out
