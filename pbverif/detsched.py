"""Deterministic baton-passing scheduler: participants are real Python threads, exactly one runs at a time, a controller
decides who moves next.  Yield points are scheduler-aware replacements of Lock / Event / Thread / time / sleep and of
multiprocessing.Queue / Event / Process and os.kill, installed by assigning the module-level names of the module
under test (no repository change).  Virtual time: timed waits carry deadlines; the clock advances only when the
controller fires a timeout, which it does only when it chooses to (and, by default, only when nothing else can move).
"""
import pickle
import re
import sys
import threading

_real_thread = threading.Thread
_real_semaphore = threading.Semaphore
_real_lock = threading.Lock


class Deadlock(RuntimeError):
    pass


class StepLimit(RuntimeError):
    pass


class Killed(BaseException):
    """raised inside a participant that was killed (unwinds its thread)"""


class Participant(object):
    def __init__(self, name, fn, sched):
        self.name = name
        self.fn = fn
        self.sched = sched
        self.sem = _real_semaphore(0)
        self.state = 'new'  # new, ready, blocked, done, killed
        self.pred = None
        self.deadline = None
        self.label = 'start'
        self.timed_out = False
        self.exc = None
        self.thread = _real_thread(target=self._main, name='det-' + name)
        self.thread.daemon = True
        self.kill_requested = False
        self.unwound = _real_semaphore(0)
        self.result = None

    def _main(self):
        self.sem.acquire()
        try:
            if self.kill_requested:
                raise Killed()
            if self.sched.anchors is not None:
                sys.settrace(self.sched._trace_call)
            self.result = self.fn()
        except Killed:
            self.state = 'killed'
        except BaseException as ex:  # noqa
            self.exc = ex
        finally:
            if self.kill_requested:
                self.state = 'killed'
                self.unwound.release()
            else:
                self.state = 'done'
                self.sched._back_to_controller()


class Scheduler(object):
    def __init__(self, chooser=None, max_steps=20000, urgency=True):
        self.parts = {}
        self.order = []
        self.clock = 0.0
        self.chooser = chooser or (lambda enabled, sched: enabled[0])
        self.current = None
        self.ctl = _real_semaphore(0)
        self.log = []  # total order of boundary events
        self.steps = 0
        self.max_steps = max_steps
        self.urgency = urgency
        self.trace = []  # (participant, label) per controller decision
        self.tls = threading.local()
        self.locks = []
        self.anchors = None   # line-anchored preemption inside lock-free code: see set_anchors
        self.preemptions = []

    # -- line anchors ---------------------------------------------------------------------------------------------
    def set_anchors(self, filename, pattern, rng, budget=2, prob=0.15):
        """Extra, *randomised* preemption points: before a source line of `filename` that matches `pattern` (accesses to
        shared state) the running participant yields with probability `prob`, at most `budget` times per run."""
        lines = set()
        rx = re.compile(pattern)
        with open(filename) as f:
            for n, text in enumerate(f, 1):
                if rx.search(text) and not text.lstrip().startswith(('#', 'def ', ':', '"""')):
                    lines.add(n)
        self.anchors = {'file': filename, 'lines': lines, 'rng': rng, 'budget': budget, 'prob': prob}

    def _trace_call(self, frame, event, arg):
        a = self.anchors
        if a is None or frame.f_code.co_filename != a['file']:
            return None
        return self._trace_line

    def _trace_line(self, frame, event, arg):
        a = self.anchors
        if event == 'line' and a is not None and a['budget'] > 0 and frame.f_lineno in a['lines']:
            p = self.current
            if p is not None and threading.current_thread() is p.thread and not p.kill_requested:
                if a['rng'].random() < a['prob']:
                    a['budget'] -= 1
                    self.preemptions.append((p.name, frame.f_lineno))
                    self.yield_point('anchor:%d' % frame.f_lineno)
        return self._trace_line

    # -- participants ----------------------------------------------------------------------------------------
    def spawn(self, name, fn):
        p = Participant(name, fn, self)
        self.parts[name] = p
        self.order.append(name)
        p.state = 'ready'
        p.thread.start()
        return p

    def me(self):
        return self.current

    def emit(self, kind, **kw):
        e = {'e': kind, 'by': self.current.name if self.current else 'controller', 't': self.clock}
        e.update(kw)
        self.log.append(e)

    # -- called by participants ------------------------------------------------------------------------------
    def _back_to_controller(self):
        self.ctl.release()

    def yield_point(self, label):
        p = self.current
        if p is None or threading.current_thread() is not p.thread:
            me = self._by_thread()
            if me is not None and me.kill_requested:
                raise Killed()
            return  # called from outside the scheduled world (set-up code)
        if p.kill_requested:
            raise Killed()
        p.label = label
        p.state = 'ready'
        self._switch(p)

    def block_until(self, pred, timeout=None, label='wait'):
        """Returns True when pred() holds, False when the (virtual) timeout fired."""
        p = self.current
        if p is None or threading.current_thread() is not p.thread:
            me = self._by_thread()
            if me is not None and me.kill_requested:
                raise Killed()
            if pred():
                return True
            raise RuntimeError('blocking primitive used outside the scheduled world: %s' % label)
        if p.kill_requested:
            raise Killed()
        p.label = label
        p.pred = pred
        p.deadline = None if timeout is None else self.clock + max(0.0, timeout)
        p.timed_out = False
        p.state = 'blocked'
        self._switch(p)
        p.pred = None
        p.deadline = None
        return not p.timed_out

    def _by_thread(self):
        t = threading.current_thread()
        for q in self.parts.values():
            if q.thread is t:
                return q
        return None

    def _switch(self, p):
        self.ctl.release()
        p.sem.acquire()
        if p.kill_requested:
            raise Killed()

    # -- controller --------------------------------------------------------------------------------------------
    def enabled(self):
        """list of (name, how) where how is 'run' or 'timeout'"""
        out = []
        waiting = []
        for n in self.order:
            p = self.parts[n]
            if p.state == 'ready':
                out.append((n, 'run'))
            elif p.state == 'blocked':
                if p.pred():
                    out.append((n, 'run'))
                elif p.deadline is not None:
                    waiting.append((n, 'timeout'))
        if self.urgency:
            # time only passes when nobody can move: the earliest deadline(s) fire
            if not out and waiting:
                dl = min(self.parts[n].deadline for n, _ in waiting)
                out = [(n, h) for n, h in waiting if self.parts[n].deadline == dl]
        else:
            out += waiting
        return out

    def run(self):
        while True:
            live = [p for p in self.parts.values() if p.state in ('ready', 'blocked')]
            if not live:
                return
            en = self.enabled()
            if not en:
                raise Deadlock('no participant can move: %s' % [(p.name, p.label) for p in live])
            self.steps += 1
            if self.steps > self.max_steps:
                raise StepLimit('step limit reached: %s' % [(p.name, p.label) for p in live])
            choice = self.chooser(en, self)
            name, how = choice
            p = self.parts[name]
            if how == 'timeout':
                self.clock = max(self.clock, p.deadline)
                p.timed_out = True
            self.trace.append((name, p.label, how))
            p.state = 'running'
            self.current = p
            p.sem.release()
            self.ctl.acquire()
            self.current = None

    def kill(self, name):
        p = self.parts[name]
        if p.state in ('done', 'killed'):
            return
        p.kill_requested = True
        p.state = 'killed'
        p.sem.release()  # let the thread unwind; it never touches the scheduled world again
        p.unwound.acquire()

    def shutdown(self):
        for p in self.parts.values():
            if p.state in ('ready', 'blocked', 'new'):
                p.kill_requested = True
                p.state = 'killed'
                p.sem.release()
                p.unwound.acquire(timeout=5)


# ------------------------------------------------------------------------------------------------------------------
# threading fakes

def make_threading(sched):
    class Lock(object):
        _n = [0]

        def __init__(self):
            Lock._n[0] += 1
            self.id = 'lock%d' % Lock._n[0]
            self.owner = None
            sched.locks.append(self)

        def acquire(self, blocking=True, timeout=-1):
            sched.yield_point('lock.acquire')
            ok = sched.block_until(lambda: self.owner is None, None if timeout in (-1, None) else timeout, 'lock.wait')
            if not ok:
                return False
            self.owner = sched.me().name if sched.me() else 'outside'
            sched.emit('acquire', lock=self.id)
            return True

        def release(self):
            sched.emit('release', lock=self.id)
            self.owner = None
            sched.yield_point('lock.release')

        def locked(self):
            return self.owner is not None

        __enter__ = acquire

        def __exit__(self, *a):
            self.release()

    class Event(object):
        _n = [0]

        def __init__(self):
            Event._n[0] += 1
            self.id = 'event%d' % Event._n[0]
            self.flag = False

        def set(self):
            self.flag = True
            sched.emit('set', event=self.id)
            sched.yield_point('event.set')

        def clear(self):
            self.flag = False
            sched.emit('clear', event=self.id)

        def is_set(self):
            sched.yield_point('event.is_set')
            sched.emit('is_set', event=self.id, value=self.flag)
            return self.flag

        isSet = is_set

        def wait(self, timeout=None):
            ok = sched.block_until(lambda: self.flag, timeout, 'event.wait')
            sched.emit('wait', event=self.id, ok=ok)
            return self.flag

    class Thread(object):
        _n = [0]

        def __init__(self, group=None, target=None, name=None, args=(), kwargs=None, daemon=None):
            Thread._n[0] += 1
            self.name = name or 'thread%d' % Thread._n[0]
            self._target = target
            self._args = args
            self._kwargs = kwargs or {}
            self.daemon = daemon
            self._p = None

        def setDaemon(self, d):
            self.daemon = d

        def start(self):
            if self._p is not None:
                raise RuntimeError('threads can only be started once')
            pname = getattr(self, 'det_name', None) or self.name.replace(' ', '_')
            self._p = sched.spawn(pname, lambda: self._target(*self._args, **self._kwargs))
            sched.emit('thread_start', thread=pname)
            sched.yield_point('thread.start')

        def join(self, timeout=None):
            if self._p is None:
                raise RuntimeError('cannot join thread before it is started')
            sched.block_until(lambda: self._p.state in ('done', 'killed'), timeout, 'thread.join')
            sched.emit('joined', thread=self._p.name, done=self._p.state in ('done', 'killed'))

        def is_alive(self):
            return self._p is not None and self._p.state not in ('done', 'killed')

        isAlive = is_alive

    return Lock, Event, Thread


def make_time(sched):
    def time():
        return sched.clock

    def sleep(dt):
        sched.block_until(lambda: False, dt, 'sleep')
    return time, sleep


# ------------------------------------------------------------------------------------------------------------------
# multiprocessing fakes (threads over fake queues; everything that crosses a queue is pickled)

class Empty(Exception):
    pass


def make_mp(sched, on_event=None):
    class _Queues(object):
        Empty = Empty

    class Queue(object):
        _n = [0]

        def __init__(self, maxsize=0):
            Queue._n[0] += 1
            self.id = 'queue%d' % Queue._n[0]
            self.items = []
            self.closed = False

        def put(self, obj, block=True, timeout=None):
            data = pickle.dumps(obj)
            self.items.append(data)
            flag = obj[0] if isinstance(obj, tuple) and obj and isinstance(obj[0], bool) else None
            sched.emit('put', queue=self.id, n=len(self.items), flag=flag)
            sched.yield_point('queue.put')

        def get(self, block=True, timeout=None):
            sched.yield_point('queue.get')
            ok = sched.block_until(lambda: bool(self.items), timeout if block else 0.0, 'queue.wait')
            if not ok:
                sched.emit('empty', queue=self.id)
                raise Empty()
            data = self.items.pop(0)
            sched.emit('get', queue=self.id, n=len(self.items))
            return pickle.loads(data)

        def close(self):
            self.closed = True

        def empty(self):
            return not self.items

    class MPEvent(object):
        _n = [0]

        def __init__(self):
            MPEvent._n[0] += 1
            self.id = 'mpevent%d' % MPEvent._n[0]
            self.flag = False

        def set(self):
            self.flag = True
            sched.emit('set', event=self.id)
            sched.yield_point('mpevent.set')

        def clear(self):
            self.flag = False
            sched.emit('clear', event=self.id)

        def is_set(self):
            sched.yield_point('mpevent.is_set')
            return self.flag

    class Process(object):
        _pid = [1000]
        registry = {}

        def __init__(self, group=None, target=None, name=None, args=(), kwargs=None):
            Process._pid[0] += 1
            self.pid = Process._pid[0]
            self.name = name
            self._target = target
            self._args = args
            self._kwargs = kwargs or {}
            self._p = None
            Process.registry[self.pid] = self

        def start(self):
            self._p = sched.spawn('worker%d' % self.pid, lambda: self._target(*self._args, **self._kwargs))
            sched.emit('proc_start', pid=self.pid)
            sched.yield_point('process.start')

        def is_alive(self):
            sched.yield_point('process.is_alive')
            return self._p is not None and self._p.state not in ('done', 'killed')

        def join(self, timeout=None):
            sched.block_until(lambda: self._p.state in ('done', 'killed'), timeout, 'process.join')
            sched.emit('proc_joined', pid=self.pid)

        def terminate(self):
            kill(self.pid, 15)

        def alive_now(self):
            return self._p is not None and self._p.state not in ('done', 'killed')

    def kill(pid, sig):
        proc = Process.registry.get(pid)
        sched.yield_point('os.kill')
        if proc is None or proc._p is None or proc._p.state in ('done', 'killed'):
            raise OSError(3, 'No such process')
        sched.emit('kill', pid=pid, sig=int(sig))
        if int(sig) != 9 and proc._p.label in ('hang', 'late'):
            return  # a process stuck in code that handles / ignores SIGTERM survives anything but SIGKILL
        sched.kill(proc._p.name)

    class MP(object):
        pass
    mp = MP()
    mp.Queue = Queue
    mp.Event = MPEvent
    mp.Process = Process
    mp.queues = _Queues
    return mp, kill
