"""Binding of spec/Recorder.tla to the real TapeRecorder (direction A: TLC behaviours -> code).

A behaviour is a list of model states (dicts with 'ev', 'rec', 'cas', 'ctl').  `Driver.run(behaviour)` executes
the corresponding runs on a real TapeRecorder over a spy-wrapped real cassette and returns a list of mismatches
between what the model prescribes (ev.seen, ev.calls, keys, store contents, recorder public state) and what the
real code did.
"""
import copy
import random
import zlib
import re
import sys
import threading
import types

from playback.tape_recorder import TapeRecorder, CapturedArg, RecordingParameters
from playback.tape_cassette import TapeCassette
from playback.interception.input_interception import InputInterceptionDataHandler
from playback.interception.output_interception import OutputInterceptionDataHandler
from playback import exceptions as pbexc
import playback.tape_recorder as tr_module

from . import opclasses
from .concretise import Concretisation, same_value
from .values import EXC, ScriptedInterrupt, BadKey, ScriptedError1, ScriptedError2, UnsavableResult

FALSY = [0, '', [], {}, False, 0.0, ()]
INTERRUPTS = [ScriptedInterrupt, SystemExit, KeyboardInterrupt, ScriptedInterrupt, GeneratorExit]
INTERRUPT_TYPES = (ScriptedInterrupt, SystemExit, KeyboardInterrupt, GeneratorExit)


def mutate_in_place(v, depth=0):
    """In-place mutation of the first mutable container reachable from v; returns the number of mutations made."""
    if depth > 4:
        return 0
    if isinstance(v, list):
        v.append('MUTATED')
        return 1
    if isinstance(v, dict):
        v['MUTATED'] = 'MUTATED'
        return 1
    if isinstance(v, set):
        v.add('MUTATED')
        return 1
    if isinstance(v, tuple):
        return sum(mutate_in_place(x, depth + 1) for x in v)
    if hasattr(v, '__dict__') and not isinstance(v, (type, BaseException)):
        v.__dict__['MUTATED'] = 'MUTATED'
        return 1
    return 0


class SpyCassette(TapeCassette):
    """Wraps a real cassette through the public interface only; logs calls; injects a failing save."""

    def __init__(self, inner):
        self.inner = inner
        self.log = []
        self.fail_save = False
        self.created = []

    def create_new_recording(self, category):
        r = self.inner.create_new_recording(category)
        self.log.append(('create', r.id))
        self.created.append(r)
        return r

    def save_recording(self, recording):
        self.log.append(('save', recording.id))
        if self.fail_save:
            raise IOError('scripted storage failure on save')
        return self.inner.save_recording(recording)

    def _save_recording(self, recording):
        return self.inner._save_recording(recording)

    def abort_recording(self, recording=None):
        self.log.append(('abort', recording.id))
        return self.inner.abort_recording(recording)

    def get_recording(self, recording_id):
        self.log.append(('get', recording_id))
        return self.inner.get_recording(recording_id)

    def get_recording_metadata(self, recording_id):
        self.log.append(('getmeta', recording_id))
        return self.inner.get_recording_metadata(recording_id)

    def iter_recording_ids(self, *a, **kw):
        self.log.append(('list',))
        return self.inner.iter_recording_ids(*a, **kw)

    def extract_recording_category(self, recording_id):
        return self.inner.extract_recording_category(recording_id)

    def close(self):
        self.log.append(('close',))
        return self.inner.close()


class ScriptedRandom(object):
    """Stands in for random.Random inside playback.tape_recorder: hands out the draws the behaviour prescribes."""
    queue = []
    drawn = []

    def __init__(self, seed=None):
        pass

    def random(self):
        v = ScriptedRandom.queue.pop(0) if ScriptedRandom.queue else 0.5
        ScriptedRandom.drawn.append(v)
        return v


RATES = {'zero': 0.0, 'frac': 0.4, 'one': 1.0, 'above': 1.7}


class Ctx(object):
    """Mutable script context shared between the harness and the bodies of the scripted operation."""

    def __init__(self):
        self.steps = []
        self.journal = []  # one dict per executed step
        self.cur = None  # current step (dict)
        self.replaying = False
        self.extractor = 'none'
        self.end = ('val', 'v1')
        self.observe = None  # callback(step_index) -> projection


class _InHandler(InputInterceptionDataHandler):
    def __init__(self, ctx):
        self.ctx = ctx

    def prepare_input_for_recording(self, interception_key, result, args, kwargs):
        if self.ctx.cur is not None and self.ctx.cur.get('fault') == 'prepFail':
            raise ValueError('scripted data handler failure (prepare input)')
        return {'wrapped': result}

    def restore_input_from_recording(self, recorded_data, args, kwargs):
        return recorded_data['wrapped']


class _OutHandler(OutputInterceptionDataHandler):
    def __init__(self, ctx):
        self.ctx = ctx

    def prepare_output_for_recording(self, interception_key, args, kwargs):
        if self.ctx.cur is not None and self.ctx.cur.get('fault') == 'prepFail':
            raise ValueError('scripted data handler failure (prepare output)')
        return {'handled_args': list(args), 'handled_kwargs': dict(kwargs)}

    def restore_output_from_recording(self, recorded_data):
        return recorded_data


# Which decorator variant each alias token stands for.
#   ia1: instance method, every argument captured, argument passed positionally
#   ia2: static function, alias resolver formats the alias, capture subset (first arg only) + an uncaptured
#        argument whose value changes on every call, data handler
#   ia3: property (no arguments)
#   ia4: instance method, arguments passed by keyword, capture by name
#   oa1: instance output
#   oa2: static output with data handler
IN_VARIANTS = {'ia1': 'instance', 'ia2': 'static', 'ia3': 'property', 'ia4': 'keyword'}
OUT_VARIANTS = {'oa1': 'instance', 'oa2': 'static'}


def _opts_key(opts):
    return (tuple(opts['fb']), bool(opts['runOrig']), opts['subst'], bool(opts['failMissing']))


class World(object):
    """Concrete environment: (alias, arg) -> value object / exception instance, created once per behaviour."""

    def __init__(self, conc, world_tokens):
        self.conc = conc
        self.tokens = world_tokens  # {(alias, arg): (t, v)}
        self.objects = {}
        self.uncaptured = 0

    def outcome(self, alias, arg):
        """A *fresh* object per call (like a read from a database): equal values, distinct identities."""
        t, v = self.tokens[(alias, arg)]
        if t == 'val':
            return t, copy.deepcopy(self.conc.value(v))
        return t, EXC[v]('scripted %s from %s' % (v, alias))

    def arg(self, token):
        return self.conc.value('arg%s' % token)


REAL_ALIAS = {'ia5': 'input'}     # model alias -> alias text used in the real decorators (default: the same text)


def build_class(recorder, ctx, world, cls_params, has_extractor, opt_sets, class_level=False, name='Op'):
    """Create a real decorated operation class interpreting ctx.steps."""
    tr = recorder
    in_handler = _InHandler(ctx)
    out_handler = _OutHandler(ctx)

    def body_common(alias, argtoken, call_args):
        st = ctx.cur
        entry = {'alias': alias, 'arg': argtoken, 'thread': threading.current_thread().name, 'inner': ctx.in_inner}
        ctx.body_log.append(entry)
        b = st.get('body', 'plain') if st is not None and st.get('kind') == 'in' and not ctx.in_inner else 'plain'
        if b == 'interrupt':
            raise ctx.interrupt_cls('scripted interrupt in body of %s' % alias)
        if b == 'discards':
            tr.discard_recording()
        elif b == 'forces':
            tr.force_sample_recording()
        elif b in ('nestSame', 'nestOther'):
            ia, ix = ctx.inner_call
            ctx.in_inner = True
            try:
                if b == 'nestSame':
                    ctx.inner_result = _safe_call(lambda: call_input(ctx.instance, ia, ix, None))
                else:
                    res = []
                    t = threading.Thread(target=lambda: res.append(_safe_call(
                        lambda: call_input(ctx.instance, ia, ix, None))), name='inner-worker')
                    t.start()
                    t.join()
                    ctx.inner_result = res[0]
            finally:
                ctx.in_inner = False
        t, obj = world.outcome(alias, argtoken)
        entry['produced'] = obj
        if t == 'exc':
            raise obj
        return obj

    def _safe_call(fn):
        try:
            return ('val', fn())
        except Exception as ex:  # noqa
            return ('exc', ex)

    ns = {}

    def make_inputs(suffix, opts):
        kw = {}
        if opts is not None:
            if opts['fb']:
                fb = [REAL_ALIAS.get(a, a) for a in opts['fb']]
                kw['fallback_aliases'] = fb if getattr(ctx, 'fb_as_list', True) else (lambda *a, **k: list(fb))
            kw['run_intercepted_when_missing'] = bool(opts['runOrig'])
            if opts['subst'] == 'value':
                kw['value_when_missing'] = ctx.subst_value
            elif opts['subst'] == 'falsy':
                kw['value_when_missing'] = ctx.subst_falsy
            elif opts['subst'] == 'callable':
                kw['value_when_missing'] = lambda *a, **k: ('callable-substitute', len(a), sorted(k))

        @tr.intercept_input('ia1', **kw)
        def ia1(self, x, *rest):
            return body_common('ia1', ctx.cur_arg, (x,))

        # same shape as ia1 under a new name (refactored alias, C02 fallbacks); its real name is a piece of the key
        # scaffolding ("input: <alias> args=..."): keys are built from the alias, never by editing another key's text
        @tr.intercept_input(REAL_ALIAS['ia5'], **kw)
        def ia5(self, x, *rest):
            return body_common('ia5', ctx.cur_arg, (x,))

        @staticmethod
        @tr.static_intercept_input('ia2.{who}', alias_params_resolver=lambda x, noise=None: {'who': 'res'},
                                   capture_args=[CapturedArg(0, 'x')], data_handler=in_handler, **kw)
        def ia2(x, noise=None):
            return body_common('ia2', ctx.cur_arg, (x,))

        @tr.intercept_input('ia4', capture_args=[CapturedArg(None, 'x')], **kw)
        def ia4(self, x=None, noise=None):
            return body_common('ia4', ctx.cur_arg, (x,))

        ns['ia1' + suffix] = ia1
        ns['ia5' + suffix] = ia5
        ns['ia2' + suffix] = ia2
        ns['ia4' + suffix] = ia4
        # property variant: decorate a property object, as the repository's tests do
        prop = tr.intercept_input('ia3', **kw)(property(lambda self: body_common('ia3', 0, ())))
        ns['ia3' + suffix] = prop

    def make_outputs(suffix, opts):
        kw = {}
        if opts is not None:
            kw['fail_on_no_recorded_result'] = bool(opts['failMissing'])
            kw['default_result_when_not_recorded'] = ctx.default_result

        def out_body(alias):
            st = ctx.cur
            ctx.body_log.append({'alias': alias, 'thread': threading.current_thread().name})
            t, v = st['res']
            if t == 'int':
                raise ctx.interrupt_cls('scripted interrupt in output body')
            if t == 'exc':
                ex = EXC[v]('scripted %s from output %s' % (v, alias))
                ctx.out_objects.append(ex)
                raise ex
            obj = ctx.result_object(v)
            ctx.out_objects.append(obj)
            return obj

        @tr.intercept_output('oa1', **kw)
        def oa1(self, payload, flag=None):
            return out_body('oa1')

        @staticmethod
        @tr.static_intercept_output('oa2', data_handler=out_handler, **kw)
        def oa2(payload, flag=None):
            return out_body('oa2')

        ns['oa1' + suffix] = oa1
        ns['oa2' + suffix] = oa2

    make_inputs('', None)
    make_outputs('', None)
    for i, o in enumerate(opt_sets.get('in', [])):
        make_inputs('__o%d' % i, o)
    for i, o in enumerate(opt_sets.get('out', [])):
        make_outputs('__o%d' % i, o)

    def extractor(*a, **k):
        mode = ctx.extractor
        if mode == 'raises':
            raise RuntimeError('scripted metadata extractor failure')
        if mode == 'interrupts':
            raise ScriptedInterrupt('scripted interrupt of the metadata extractor')
        if mode == 'junk':
            return ctx.junk
        return {'user_key': 'user-meta', 'user_num': 7}

    def run_steps(self_or_cls):
        ctx.instance = self_or_cls if not class_level else self_or_cls()
        inst = ctx.instance
        for i, st in enumerate(ctx.steps):
            ctx.cur = st
            ctx.cur_arg = st.get('arg', 0)
            ctx.body_log = []
            ctx.out_objects = []
            rec_ = {'i': i}
            try:
                if st.get('th', 0):
                    box = []

                    def work():
                        try:
                            box.append(('ok', do_step(inst, st)))
                        except BaseException as ex:  # noqa
                            box.append(('raise', ex))
                    t = threading.Thread(target=work, name='op-worker')
                    t.start()
                    t.join()
                    if box[0][0] == 'raise':
                        raise box[0][1]
                    out = box[0][1]
                else:
                    out = do_step(inst, st)
                rec_['seen'] = out
                rec_['token'] = ctx.project(out, st)
            except (ScriptedError1, ScriptedError2) as ex:
                rec_['seen'] = ('exc', ex)
                rec_['token'] = ctx.project(rec_['seen'], st)
            except BaseException as ex:
                rec_['seen'] = ('abort', ex)
                rec_['token'] = ctx.project(rec_['seen'], st)
                rec_['bodies'] = list(ctx.body_log)
                rec_['out_objects'] = list(ctx.out_objects)
                if ctx.observe:
                    rec_['obs'] = ctx.observe()
                ctx.journal.append(rec_)
                if getattr(ctx, 'clock', None) is not None:
                    ctx.clock.advance(1.0)
                ctx.cur = None
                raise
            rec_['bodies'] = list(ctx.body_log)
            rec_['out_objects'] = list(ctx.out_objects)
            if ctx.observe:
                rec_['obs'] = ctx.observe()
            ctx.journal.append(rec_)
            if getattr(ctx, 'clock', None) is not None:
                ctx.clock.advance(1.0)
        ctx.cur = None
        t, v = ctx.end
        if t == 'int':
            raise ctx.interrupt_cls('scripted interrupt of the operation')
        if t == 'exc':
            ctx.end_object = EXC[v]('scripted %s from operation' % v)
            raise ctx.end_object
        ctx.end_object = UnsavableResult(v) if getattr(ctx, 'poison_end', False) else ctx.result_object(v)
        return ctx.end_object

    def call_input(inst, alias, argtoken, st):
        suffix = ''
        if st is not None and st.get('optidx') is not None:
            suffix = '__o%d' % st['optidx']
        prev_arg = ctx.cur_arg
        ctx.cur_arg = argtoken
        try:
            if alias == 'ia3':
                return getattr(inst, 'ia3' + suffix)
            x = world.arg(argtoken)
            if st is not None and st.get('fault') == 'keyFail':
                x = BadKey(argtoken)
            world.uncaptured += 1
            if alias in ('ia1', 'ia5'):
                return getattr(inst, alias + suffix)(x)
            if alias == 'ia2':
                return getattr(inst, 'ia2' + suffix)(x, noise=('noise', world.uncaptured))
            if alias == 'ia4':
                return getattr(inst, 'ia4' + suffix)(x=x, noise=('noise', world.uncaptured))
            raise KeyError(alias)
        finally:
            ctx.cur_arg = prev_arg

    def do_step(inst, st):
        k = st['kind']
        if k == 'in':
            return ('val', call_input(inst, st['alias'], st['arg'], st))
        if k == 'out':
            suffix = '__o%d' % st['optidx'] if st.get('optidx') is not None else ''
            payload = ctx.sent_object(st['sent'])
            st['_payload'] = payload
            if st['alias'] == 'oa1':
                return ('val', getattr(inst, 'oa1' + suffix)(payload, flag='f'))
            return ('val', getattr(inst, 'oa2' + suffix)(payload, flag='f'))
        if k == 'discard':
            tr.discard_recording()
            return ('none', None)
        if k == 'force':
            tr.force_sample_recording()
            return ('none', None)
        if k == 'data':
            tr.record_data('k1', ctx.user_data)
            return ('none', None)
        if k == 'disable':
            if not ctx.replaying:
                tr.disable_recording()
            return ('none', None)
        if k == 'subop':
            # a nested operation of a class registered as skipped: nothing of it may reach the recording or the replay
            helper = getattr(ctx, 'skipped_helper', None)
            if helper is None or helper[0] is not tr:
                class SkippedSubOperation(object):
                    @tr.operation()
                    def execute(self):
                        return ['result of the nested, skipped operation']
                SkippedSubOperation.__module__ = opclasses.__name__
                setattr(opclasses, 'SkippedSubOperation', SkippedSubOperation)
                tr.recording_params(RecordingParameters(skipped=True))(SkippedSubOperation)
                helper = ctx.skipped_helper = (tr, SkippedSubOperation)
            helper[1]().execute()
            return ('none', None)
        if k == 'playdata':
            return ('val', tr.play_data('k1'))
        if k == 'mutate':
            # mutate, in place, everything the program got from / handed to intercepted calls so far in this run
            n = 0
            for prev in ctx.journal:
                seen = prev.get('seen')
                if seen and seen[0] == 'val':
                    n += mutate_in_place(seen[1])
                elif seen and seen[0] == 'exc' and ctx.replaying:
                    # replayed code may also tamper with a recorded exception it caught: later reads must not see it
                    try:
                        seen[1].MUTATED = 'MUTATED'
                        n += 1
                    except Exception:
                        pass
            # sent payloads are only mutated while recording with copy-on-interception (during a replay nothing copies
            # what the code sends, and the properties assume it is not mutated after capture)
            if not ctx.replaying:
                for prev_st in ctx.steps:
                    if '_payload' in prev_st:
                        n += mutate_in_place(prev_st['_payload'])
            return ('none', n)
        raise KeyError(k)

    if class_level:
        if has_extractor:
            execute = classmethod(tr.class_operation(metadata_extractor=extractor)(lambda cls: run_steps(cls)))
        else:
            execute = classmethod(tr.class_operation()(lambda cls: run_steps(cls)))
    else:
        if has_extractor:
            execute = tr.operation(metadata_extractor=extractor)(lambda self: run_steps(self))
        else:
            execute = tr.operation()(lambda self: run_steps(self))
    ns['execute'] = execute
    cls = type(name, (object,), ns)
    cls.__module__ = opclasses.__name__
    cls.__qualname__ = name
    setattr(opclasses, name, cls)
    if cls_params is not None:
        tr.recording_params(RecordingParameters(
            sampling_rate=RATES[cls_params['rate']], ignore_enforced_sampling=bool(cls_params['ignoreForce']),
            skipped=bool(cls_params['skipped']), copy_data_on_intercepion=bool(cls_params['copyOn'])))(cls)
    return cls


# ------------------------------------------------------------------------------------------------------------------
_RE_OUT = re.compile(r'^output: (.+) #(\d+)\.(output|result)$', re.S)
_RE_IN = re.compile(r'^input: (\S+) args=', re.S)
IN_ALIAS_REAL = {'ia1': 'ia1', 'ia2.res': 'ia2', 'ia3': 'ia3', 'ia4': 'ia4', 'input': 'ia5'}


class Mismatch(dict):
    pass


class Driver(object):
    """Executes one TLC behaviour of Recorder.tla on the real recorder; collects mismatches."""

    def __init__(self, consts, cassette_factory, conc_seed=0, fetch_factory=None):
        self.consts = consts
        self.cassette_factory = cassette_factory
        self.fetch_factory = fetch_factory  # callable(inner cassette) -> cassette object used for fetching
        self.conc_seed = conc_seed
        self.shadow = False
        self.vary_threads = True
        self.vary_subclass = True  # some runs use an undecorated subclass of the (default-parameter) operation class
        self.vary_caller = True  # some runs are started while the caller is handling an exception (sys.exc_info() is set)
        self.check_default_lookup = False
        self.returned_exceptions = False
        self.in_opts = [dict(o) for o in consts.get('FreeOptsList', [])]
        self.out_opts = [dict(o) for o in consts.get('FreeOutOptsList', [])]
        self.world_tokens = {tuple(k): tuple(v) for k, v in consts['WorldMap'].items()}
        self.inner_call = tuple(consts['InnerCall'])
        self.classes = {c['name']: c for c in consts['ClassList']}
        self._uid = [0]

    # -- helpers -------------------------------------------------------------------------------------------------
    def _mm(self, out, cat, idx, expected, observed, note=''):
        out.append(Mismatch(cat=cat, step=idx, expected=_j(expected), observed=_j(observed), note=note))

    def _token_of_value(self, v):
        if isinstance(v, UnsavableResult):
            return v.token
        t = self.conc.token_of(v)
        return t if t is not None else ('?', repr(v)[:80])

    def _seen_token(self, seen, world_objs=None):
        """Project what the caller observed onto the model's <<t, v>> pair."""
        t, obj = seen
        if t == 'val':
            return ('val', self._token_of_value(obj))
        if t == 'exc':
            tampered = '*mutated' if getattr(obj, 'MUTATED', None) is not None else ''
            for name, cls in EXC.items():
                if type(obj) is cls:
                    return ('exc', name + tampered)
            return ('exc', type(obj).__name__ + tampered)
        if t == 'abort':
            if isinstance(obj, INTERRUPT_TYPES):
                return ('int', 'BI')
            if isinstance(obj, pbexc.TapeRecorderException):
                return ('err', type(obj).__name__)
            return ('err', 'FrameworkError:' + type(obj).__name__)
        return ('none', '')

    def _entry_token(self, key_kind, entry):
        """Project a recorded entry onto the model's entry pair."""
        try:
            if key_kind in ('in', 'res'):
                if 'exception' in entry:
                    ex = entry['exception']
                    for name, cls in EXC.items():
                        if type(ex) is cls:
                            return ('exc', name)
                    return ('exc', type(ex).__name__)
                v = entry['value']
                if isinstance(v, dict) and set(v) == {'wrapped'}:
                    v = v['wrapped']
                return ('val', self._token_of_value(v))
            if key_kind == 'out':
                if 'handled_args' in entry:
                    return ('sent', self._token_of_value(entry['handled_args'][0]))
                return ('sent', self._token_of_value(entry['args'][0]))
            if key_kind == 'op':
                v = entry['args'][0]
                for name, cls in EXC.items():
                    if type(v) is cls:
                        return ('exc', name)
                return ('val', self._token_of_value(v))
            if key_kind == 'user':
                return ('data', 'd1' if same_value(entry, self.ctx.user_data) else '?')
        except Exception as ex:  # projection failure is itself an observation
            return ('?', repr(ex)[:80])
        return ('?', '?')

    def _key_token(self, real_key, hint=None):
        m = _RE_OUT.match(real_key)
        if m:
            alias, n, kind = m.group(1), int(m.group(2)), m.group(3)
            if alias == TapeRecorder.OPERATION_OUTPUT_ALIAS:
                return ('op', 'op', 1)
            return ('out' if kind == 'output' else 'res', alias, n)
        m = _RE_IN.match(real_key)
        if m:
            alias = IN_ALIAS_REAL.get(m.group(1), m.group(1))
            return ('in', alias, self.keymap.get(real_key, '?'))
        if real_key == 'k1':
            return ('user', 'k1', 0)
        return ('?', real_key[:60], 0)

    def _project_recording(self, recording):
        out = {}
        for k in list(recording.get_all_keys()):
            tk = self._key_token(k)
            out[tk] = self._entry_token(tk[0], recording.get_data(k))
        return out

    def _observe(self):
        r = self.recorder
        keys = None
        if self.spy.created:
            try:
                keys = set(self.spy.created[-1].get_all_keys())
            except Exception:
                keys = None
        return {'in_rec': r.in_recording_mode, 'forced': r.is_recording_sample_forced, 'ncalls': len(self.spy.log),
                'keys': keys, 'rid': r.current_recording_id, 'in_play': r.in_playback_mode}

    # -- main ----------------------------------------------------------------------------------------------------
    def _make_env(self, tag):
        """A fresh TapeRecorder over the (shared) spy cassette with its own scripted classes and script context."""
        old_random = tr_module.Random
        tr_module.Random = ScriptedRandom
        try:
            recorder = TapeRecorder(self.spy, random_seed=1)
        finally:
            tr_module.Random = old_random
        ctx = Ctx()
        ctx.inner_call = self.inner_call
        ctx.in_inner = False
        ctx.body_log = []
        ctx.out_objects = []
        ctx.observe = self._observe
        ctx.subst_value = ('substitute', 1)
        ctx.subst_falsy = FALSY[self.beh_hash % len(FALSY)]
        ctx.default_result = ('default-result',)
        ctx.user_data = {'user': ['data', 1]}
        ctx.junk = [('a', 1), 5]
        ctx.sent_object = lambda v: copy.deepcopy(self.conc.value(v))
        ctx.result_object = lambda v: copy.deepcopy(self.conc.value(v))
        if self.returned_exceptions and (self.beh_hash // 32) % 3 == 0:
            # the operation / an output *returns* (does not raise) an exception object or the serialisable fallback form
            forms = [ScriptedError1('returned, not raised'), {'error_type': ScriptedError1, 'error_repr': 'x'}]
            ctx.result_object = lambda v: forms[(self.beh_hash // 128) % 2]
        ctx.fb_as_list = ((self.beh_hash // 16) % 2 == 0)
        ctx.replaying = False
        ctx.interrupt_cls = self.interrupt_cls
        # what the caller saw is projected onto tokens at the moment it is seen (later steps may mutate the objects)
        ctx.project = lambda seen, st: (self._replay_seen_token(seen, st) if ctx.replaying else self._seen_token(seen))
        pyclasses = {}
        for name, c in self.classes.items():
            for ext in (False, True):
                pyclasses[(name, ext)] = build_class(
                    recorder, ctx, self.world, c, ext, {'in': self.in_opts, 'out': self.out_opts},
                    class_level=name.endswith('c'), name='%s_%s_%s' % (name, 'x' if ext else 'n', tag))
        return {'recorder': recorder, 'ctx': ctx, 'pyclasses': pyclasses}

    def _use(self, env):
        self.recorder = env['recorder']
        self.ctx = env['ctx']
        self.pyclasses = env['pyclasses']

    def run(self, beh):
        out = []
        # the concretisation varies per behaviour (not only per run of the check), so that even one concretisation per
        # behaviour covers, over the thousands of behaviours of a run, mutable / type-confusable / plain values
        h = zlib.crc32(repr([(s['ev']['kind'], s['ev']['step']['alias'], s['ev']['step']['arg'], s['ev']['step']['body'])
                             for s in beh]).encode()) ^ (self.conc_seed * 2654435761 & 0xffffffff)
        self.beh_hash = h
        has_mutate = any(s['ev']['step']['kind'] == 'mutate' for s in beh)
        self.conc = Concretisation(h, prefer_mutable=(h % 2 == 1) or has_mutate,
                                   confusable=('arg1', 'arg2') if (h // 2) % 2 == 0 else (),
                                   prefer_shallow_immutable=has_mutate and (h // 64) % 3 == 0)
        self.interrupt_cls = INTERRUPTS[(h // 8) % len(INTERRUPTS)]
        # reserve the special values so that no value token is concretised to something equal to them
        self.conc.map['__subst_value'] = ('substitute', 1)
        self.conc.map['__subst_falsy'] = FALSY[self.beh_hash % len(FALSY)]
        self.conc.map['__default'] = ('default-result',)
        self.world = World(self.conc, self.world_tokens)
        inner = self.cassette_factory()
        self.inner = inner
        self.spy = SpyCassette(inner)
        ScriptedRandom.queue = []
        ScriptedRandom.drawn = []
        self.keymap = {}
        self._uid[0] += 1
        uid = self._uid[0]
        self.clock = _FakeClock()
        old_time = tr_module.time
        tr_module.time = self.clock
        main = self._make_env('%d' % uid)
        main['ctx'].clock = self.clock
        self._use(main)
        if beh[0]['rec']['enabled']:
            self.recorder.enable_recording()
        self.real_ids = {}  # model rid -> real id
        i = 1
        n = len(beh)
        nshadow = 0
        try:
            while i < n:
                k = beh[i]['ev']['kind']
                if k == 'toggle':
                    if beh[i]['rec']['enabled']:
                        self.recorder.enable_recording()
                    else:
                        self.recorder.disable_recording()
                    i += 1
                    continue
                if k == 'enter':
                    endk, fn = 'finalise', self._run_op
                elif k == 'playstart':
                    endk, fn = 'playend', self._run_play
                elif k in ('playunknown', 'playraise'):
                    endk, fn = k, self._run_play_special
                else:
                    raise ValueError('unexpected event %r at %d' % (k, i))
                j = i
                while j < n and beh[j]['ev']['kind'] != endk:
                    j += 1
                if j >= n:
                    break  # truncated behaviour (simulation depth): stop here
                if self.shadow and i > 1:
                    # the same run on a fresh recorder over the same cassette content (C09: independence of history)
                    nshadow += 1
                    enabled = self.recorder.recording_enabled
                    shadow = self._make_env('%d_s%d' % (uid, nshadow))
                    shadow['ctx'].clock = self.clock
                    if enabled:
                        shadow['recorder'].enable_recording()
                    self._use(shadow)
                    ob = {}
                    fn(beh, i, j, [], ob)
                    self._use(main)
                    oa = {}
                    fn(beh, i, j, out, oa)
                    if oa != ob:
                        diff = sorted(kk for kk in set(oa) | set(ob) if oa.get(kk) != ob.get(kk))
                        self._mm(out, 'history', j, {kk: ob.get(kk) for kk in diff}, {kk: oa.get(kk) for kk in diff},
                                 'run on the used recorder differs from the same run on a fresh recorder: %s' % diff)
                else:
                    fn(beh, i, j, out, {})
                i = j + 1
        finally:
            tr_module.time = old_time
            for key in list(vars(opclasses)):
                if key.endswith('_%d' % uid) or ('_%d_s' % uid) in key:
                    delattr(opclasses, key)
            try:
                self.spy.inner.close()
            except Exception:
                pass
        return out

    def _idle_check(self, idx, out):
        r = self.recorder
        obs = (r.in_recording_mode, r.in_playback_mode, r.current_recording_id, r.is_recording_sample_forced)
        if obs != (False, False, None, False):
            self._mm(out, 'idle', idx, (False, False, None, False), obs,
                     'recorder not idle after the run (recording, replaying, current id, forced)')

    def _subclass_of(self, cls):
        cache = self.__dict__.setdefault('_subclasses', {})
        if cls not in cache:
            parts = cls.__name__.split('_', 1)
            sub = type(parts[0] + 'Sub_' + parts[1], (cls,), {})
            sub.__module__ = opclasses.__name__
            sub.__qualname__ = sub.__name__
            setattr(opclasses, sub.__name__, sub)
            cache[cls] = sub
        return cache[cls]

    def _in_caller_context(self, fn, i0):
        """Where the caller stands is a presentation of the run, not part of it: every fourth run is started from inside
        an exception handler of the caller (as a fallback path would), so that sys.exc_info() is not empty."""
        if not self.vary_caller or (self.beh_hash // 7 + i0) % 4 != 0:
            return fn()
        try:
            raise LookupError('the caller is handling this exception while it starts the run')
        except LookupError:
            return fn()

    def _run_op(self, beh, i0, j, out, obs):
        ctx = self.ctx
        enter = beh[i0]['ev']
        fin = beh[j]['ev']
        steps = []
        step_idx = []
        end = None
        for x in range(i0 + 1, j):
            e = beh[x]['ev']
            if e['kind'] == 'opend':
                end = tuple(e['seen'])
            else:
                st = dict(e['step'])
                st['res'] = tuple(st['res'])
                steps.append(st)
                step_idx.append(x)
        returns = end is not None and end[0] == 'val'
        if end is None:
            end = ('val', 'v1')  # unreachable: the operation is cut short by an interrupt in a body
        if self.vary_threads:
            trnd = random.Random(self.beh_hash * 31 + i0)
            for st in steps:
                st['th'] = 1 if trnd.random() < 0.3 else 0
        ctx.steps = steps
        ctx.replaying = False
        ctx.journal = []
        ctx.end = end
        ctx.end_object = None
        ctx.extractor = fin['extractor'] or 'none'
        # a failing save is either injected in front of the cassette, or (half of the behaviours, where the operation
        # returns and its output is captured by reference) provoked *inside* the real cassette's save by a result that
        # cannot be serialised
        ctx.poison_end = bool(fin['saveFails']) and returns and not self.classes[enter['cls']].get('copyOn') \
            and (self.beh_hash // 8) % 2 == 0
        self.spy.fail_save = bool(fin['saveFails']) and not ctx.poison_end
        rate = RATES[self.classes[enter['cls']]['rate']]
        ScriptedRandom.queue = []
        if fin['draw'] == 'low':
            ScriptedRandom.queue = [rate * 0.5] * 4
        elif fin['draw'] == 'high':
            ScriptedRandom.queue = [rate + (1.0 - rate) * 0.5] * 4
        ScriptedRandom.drawn = []
        cls = self.pyclasses[(enter['cls'], ctx.extractor != 'none')]
        cp = self.classes[enter['cls']]
        if self.vary_subclass and not enter['cls'].endswith('c') and cp['rate'] == 'one' and not cp['ignoreForce'] \
                and not cp['skipped'] and not cp.get('copyOn') and (self.beh_hash // 11 + i0) % 3 == 0:
            # the operation runs on an undecorated *subclass* of the class that carries the recording parameters (which
            # are the defaults here): the recording belongs to the class the operation ran on
            cls = self._subclass_of(cls)
        log0 = len(self.spy.log)
        ncreated0 = len(self.spy.created)
        copy_patch = _CopyFaultPatch(ctx)
        seen_op = None
        import datetime as _dt
        wall0 = _dt.datetime.utcnow()
        def invoke():
            if enter['cls'].endswith('c'):
                return cls.execute()
            if not self.recorder.recording_enabled and (self.beh_hash // 5 + i0) % 2 == 0:
                # recording disabled = pure pass-through, however the operation is invoked: here without any positional
                # argument (the instance is passed by keyword)
                return cls.execute(self=cls())
            return cls().execute()
        with copy_patch:
            try:
                seen_op = ('ret', self._in_caller_context(invoke, i0))
            except BaseException as ex:  # noqa
                seen_op = ('raise', ex)
        self.spy.fail_save = False
        wall = (wall0, _dt.datetime.utcnow())
        # -- operation-level transparency -------------------------------------------------------------------
        exp_end = tuple(beh[j]['ev']['seen'])
        if exp_end[0] == 'val':
            ok = seen_op[0] == 'ret' and seen_op[1] is ctx.end_object
        elif exp_end[0] == 'exc':
            ok = seen_op[0] == 'raise' and seen_op[1] is ctx.end_object
        else:
            ok = seen_op[0] == 'raise' and isinstance(seen_op[1], INTERRUPT_TYPES)
        if not ok:
            self._mm(out, 'seen', j, exp_end, (seen_op[0], repr(seen_op[1])[:200]),
                     'operation outcome differs from the undecorated code')
        # -- per-step comparison ----------------------------------------------------------------------------
        if len(ctx.journal) != len(steps):
            self._mm(out, 'seen', i0, len(steps), len(ctx.journal), 'number of executed steps')
        prev_keys = set()
        prev_model_keys = set()
        ncalls = log0 + len(enter['calls'])
        for jr, st, x in zip(ctx.journal, steps, step_idx):
            e = beh[x]['ev']
            exp_seen = tuple(e['seen'])
            if e['kind'] in ('in', 'out'):
                got = jr['token']
                if got != exp_seen:
                    self._mm(out, 'seen', x, exp_seen, got, 'caller of %s saw something else' % st['alias'])
                else:
                    # identity: the very object the body produced
                    if e['kind'] == 'in' and exp_seen[0] in ('val', 'exc'):
                        produced = [b.get('produced') for b in jr['bodies'] if b['alias'] == st['alias'] and not b.get('inner')]
                        if not produced or jr['seen'][1] is not produced[-1]:
                            self._mm(out, 'seen', x, 'same object', 'different object (id)', 'identity of input result')
                    if e['kind'] == 'out' and exp_seen[0] in ('val', 'exc'):
                        objs = jr.get('out_objects') or [None]
                        if jr['seen'][1] is not objs[-1]:
                            self._mm(out, 'seen', x, 'same object', 'different object (id)', 'identity of output result')
                nb = len([b for b in jr['bodies'] if b['alias'] == st['alias'] and not b.get('inner')])
                if nb != e['bodyRuns']:
                    self._mm(out, 'bodies', x, e['bodyRuns'], nb, 'wrapped body of %s executed %d times' % (st['alias'], nb))
            sobs = jr.get('obs')
            if sobs is not None:
                st_model = beh[x]
                ncalls += len(e['calls'])
                if sobs['ncalls'] != ncalls:
                    self._mm(out, 'calls_step', x, list(e['calls']), [c[0] for c in self.spy.log[log0:]],
                             'cassette calls up to this step')
                    ncalls = sobs['ncalls']
                exp_in_rec = bool(st_model['rec']['enabled'] and st_model['rec']['active'])
                if sobs['in_rec'] != exp_in_rec:
                    self._mm(out, 'state', x, exp_in_rec, sobs['in_rec'], 'in_recording_mode')
                if sobs['forced'] != bool(st_model['rec']['force']):
                    self._mm(out, 'state', x, bool(st_model['rec']['force']), sobs['forced'], 'is_recording_sample_forced')
                if enter['icpt'] and sobs['keys'] is not None:
                    mkeys = set(tuple(k) for k in e['keys'])
                    newreal = sobs['keys'] - prev_keys
                    newmodel = mkeys - prev_model_keys
                    self._bind_keys(newreal, newmodel, st)
                    tokens = set(self._key_token(k) for k in sobs['keys'])
                    if st_model['rec']['active'] and tokens != mkeys:
                        self._mm(out, 'keys', x, sorted(mkeys), sorted(tokens, key=repr), 'keys in the active recording')
                    prev_keys = set(sobs['keys'])
                    prev_model_keys = mkeys
        obs['steps'] = [jr['token'] for jr in ctx.journal]
        obs['bodies'] = [sorted((b['alias'], b.get('inner', False)) for b in jr['bodies']) for jr in ctx.journal]
        obs['op'] = (seen_op[0], self._seen_token(('val', seen_op[1]) if seen_op[0] == 'ret' else
                                                  (('exc', seen_op[1]) if isinstance(seen_op[1], (ScriptedError1, ScriptedError2))
                                                   else ('abort', seen_op[1]))))
        obs['per_step'] = [(jr['obs']['in_rec'], jr['obs']['forced'],
                            sorted(self._key_token(k) for k in (jr['obs']['keys'] or ())) if jr['obs']['in_rec'] else None)
                           for jr in ctx.journal if jr.get('obs')]
        # -- cassette calls of the whole run ---------------------------------------------------------------------
        exp_calls = []
        for x in range(i0, j + 1):
            exp_calls += list(beh[x]['ev']['calls'])
        got_calls = [c[0] for c in self.spy.log[log0:]]
        obs['calls'] = sorted(got_calls)
        if sorted(got_calls) != sorted(exp_calls):
            self._mm(out, 'calls', j, exp_calls, got_calls, 'cassette calls made by the run')
        if not enter['icpt'] and got_calls:
            self._mm(out, 'passthrough', j, [], got_calls, 'cassette touched by a pass-through operation')
        # each created recording finalised exactly once
        for r in self.spy.created[ncreated0:]:
            nfin = len([c for c in self.spy.log[log0:] if c[0] in ('save', 'abort') and c[1] == r.id])
            # (0 only when the finalisation itself was interrupted - a BaseException of the metadata extractor, see
            # Finalise in Recorder.tla)
            exp_nfin = 0 if fin['decision'] == 'lost' else 1
            if nfin != exp_nfin:
                self._mm(out, 'finalised', j, exp_nfin, nfin, 'save/abort calls for recording %s' % r.id)
        self._idle_check(j, out)
        # -- sampling decision -------------------------------------------------------------------------------
        obs['kept'] = 'save' in got_calls
        if fin['decision'] in ('keep', 'drop'):
            kept = 'save' in got_calls
            if kept != (fin['decision'] == 'keep'):
                self._mm(out, 'decision', j, fin['decision'], 'keep' if kept else 'drop',
                         'draws=%r' % (ScriptedRandom.drawn,))
        # -- stored content ----------------------------------------------------------------------------------
        if enter['icpt'] and len(self.spy.created) > ncreated0:
            rid = enter['rid']
            real = self.spy.created[ncreated0]
            self.real_ids[rid] = real.id
            store = beh[j]['cas']['store']
            model = _store_get(store, rid)
            fetcher = self.fetch_factory(self.inner) if self.fetch_factory else self.inner
            try:
                fetched = fetcher.get_recording(real.id)
            except pbexc.NoSuchRecording:
                fetched = None
            except Exception as ex:  # noqa
                fetched = ('error', ex)
            obs['stored'] = None if fetched is None else ('error' if isinstance(fetched, tuple) else
                                                          sorted(self._project_recording(fetched).items(), key=repr))
            if fetched is not None and not isinstance(fetched, tuple):
                md = fetched.get_metadata()
                obs['meta'] = sorted((str(k), repr(v)) for k, v in md.items()
                                     if k not in (TapeRecorder.DURATION, TapeRecorder.RECORDED_AT,
                                                  TapeRecorder.OPERATION_CLASS))
            if model is None:
                if fetched is not None:
                    self._mm(out, 'store_presence', j, 'not stored', 'fetchable: %r' % (fetched,),
                             'recording must not be persisted')
            else:
                if fetched is None or isinstance(fetched, tuple):
                    self._mm(out, 'store_presence', j, 'stored', repr(fetched), 'saved recording cannot be fetched')
                else:
                    got = self._project_recording(fetched)
                    exp = {tuple(k): tuple(v) for k, v in _items(model['data'])}
                    if set(got) != set(exp):
                        self._mm(out, 'store_keys', j, sorted(exp), sorted(got, key=repr),
                                 'keys of the saved recording')
                    elif got != exp:
                        self._mm(out, 'store_values', j, sorted(exp.items()), sorted(got.items(), key=repr),
                                 'content of the saved recording')
                    self._check_meta(fetched.get_metadata(), model['meta'], cls, j, out, float(len(ctx.journal)), wall)
                    # a run cut short inside an intercepted call leaves no entry for that call: unless the saved recording
                    # is flagged incomplete, its replay on unchanged code must fail on exactly that missing entry
                    real_inc = fetched.get_metadata().get(TapeRecorder.INCOMPLETE_RECORDING)
                    if model['meta']['incomplete'] and real_inc is False:
                        nout = {}
                        for st in steps:
                            if st['kind'] == 'out':
                                nout[st['alias']] = nout.get(st['alias'], 0) + 1
                            cut = st['body'] == 'interrupt' or tuple(st['res'])[0] == 'int'
                            tok = ('in', st['alias'], st['arg']) if st['kind'] == 'in' else ('res', st['alias'], nout.get(st['alias'], 0))
                            if cut and tok not in got:
                                self._mm(out, 'pmissing', j, 'flagged incomplete', 'not flagged incomplete',
                                         'the run was cut short inside the intercepted call %s: the saved recording has no entry '
                                         'for it, is not flagged incomplete, and so cannot replay without a missing-key error'
                                         % (tok,))
                                break
            if self.check_default_lookup:
                self._check_default_lookup(beh, j, cls, out)

    def _bind_keys(self, newreal, newmodel, st):
        ins_model = [k for k in newmodel if k[0] == 'in']
        for rk in newreal:
            m = _RE_IN.match(rk)
            if not m:
                continue
            alias = IN_ALIAS_REAL.get(m.group(1), m.group(1))
            cands = [k for k in ins_model if k[1] == alias]
            if len(cands) == 1:
                self.keymap[rk] = cands[0][2]
                ins_model.remove(cands[0])
            elif cands:
                self.keymap[rk] = cands[0][2]
                ins_model.remove(cands[0])

    def _check_default_lookup(self, beh, j, cls, out):
        """the default lookup (skip incomplete) returns exactly the stored recordings not flagged incomplete"""
        from playback.studio.recordings_lookup import find_matching_recording_ids, RecordingLookupProperties
        store = beh[j]['cas']['store']
        exp = set()
        for rid, srec in _items(store):
            if not srec['meta']['incomplete'] and rid in self.real_ids and \
                    self.inner.extract_recording_category(self.real_ids[rid]) == cls.__name__:
                exp.add(self.real_ids[rid])
        fetcher = self.fetch_factory(self.inner) if self.fetch_factory else self.inner
        probe = TapeRecorder(fetcher)
        try:
            got = set(find_matching_recording_ids(probe, cls.__name__, RecordingLookupProperties(start_date=None)))
        except Exception as ex:  # noqa
            got = 'raised %r' % (ex,)
        if got != exp:
            self._mm(out, 'default_lookup', j, sorted(exp), got if isinstance(got, str) else sorted(got),
                     'default lookup (skip incomplete) of category %s' % cls.__name__)

    def _check_meta(self, meta, model_meta, cls, idx, out, exp_duration=None, wall=None):
        got_cls = meta.get(TapeRecorder.OPERATION_CLASS)
        if got_cls is not cls:
            self._mm(out, 'meta_class', idx, cls.__name__, repr(got_cls), 'operation class in metadata')
        inc = meta.get(TapeRecorder.INCOMPLETE_RECORDING)
        if inc is not bool(model_meta['incomplete']):
            self._mm(out, 'meta_incomplete', idx, bool(model_meta['incomplete']), inc, 'incomplete flag')
        exc = meta.get(TapeRecorder.EXCEPTION_IN_OPERATION, 'absent')
        exp_exc = {'true': True, 'false': False, 'absent': 'absent'}[model_meta['exc']]
        if model_meta['exc'] != 'absent' and exc is not exp_exc:
            self._mm(out, 'meta_exc', idx, exp_exc, exc, 'exception-in-operation flag')
        user = {k: v for k, v in meta.items() if not str(k).startswith('_tape_recorder_')}
        exp_user = {'user_key': 'user-meta', 'user_num': 7} if model_meta['user'] == 'ok' else {}
        if user != exp_user:
            self._mm(out, 'meta_user', idx, exp_user, user, 'user metadata (extractor result, or nothing if it failed)')
        dur = meta.get(TapeRecorder.DURATION)
        if not isinstance(dur, (int, float)) or isinstance(dur, bool) or dur < 0:
            self._mm(out, 'meta_duration', idx, 'non-negative number', dur, 'duration')
        elif exp_duration is not None and abs(dur - exp_duration) > 1e-6:
            self._mm(out, 'meta_duration', idx, exp_duration, dur, 'duration vs the (virtual) time the operation took')
        ts = meta.get(TapeRecorder.RECORDED_AT)
        try:
            import datetime as _dt
            parsed = _dt.datetime.strptime(ts, '%Y-%m-%d %H:%M:%S.%f') if '.' in ts else \
                _dt.datetime.strptime(ts, '%Y-%m-%d %H:%M:%S')
            if wall is not None and not (wall[0] - _dt.timedelta(seconds=2) <= parsed <= wall[1] + _dt.timedelta(seconds=2)):
                self._mm(out, 'meta_time', idx, [str(wall[0]), str(wall[1])], ts, 'recorded-at outside the wall-clock window of the run')
        except Exception:
            self._mm(out, 'meta_time', idx, 'parsable UTC timestamp', ts, 'recorded-at')

    # -- replay --------------------------------------------------------------------------------------------------
    def _cassette_snapshot(self):
        inner = self.inner
        snap = getattr(inner, 'verif_snapshot', None)
        if snap:
            return snap()
        if hasattr(inner, 'get_all_recording_ids'):
            store = getattr(inner, '_recordings', None)
            if hasattr(store, 'get'):
                return [(i, store.get(i)) for i in inner.get_all_recording_ids()]
            # (no such attribute: the same through the public interface)
            res = []
            for i in inner.get_all_recording_ids():
                r = inner.get_recording(i)
                res.append((i, sorted((repr(k), repr(r.get_data(k))) for k in r.get_all_keys()),
                            sorted((repr(k), repr(v)) for k, v in r.get_metadata().items())))
            return res
        if hasattr(inner, 'directory'):
            import os
            res = []
            for fn in sorted(os.listdir(inner.directory)):
                with open(os.path.join(inner.directory, fn), 'rb') as f:
                    res.append((fn, f.read()))
            return res
        return None

    def _run_play(self, beh, i0, j, out, obs):
        ctx = self.ctx
        start = beh[i0]['ev']
        rid = start['rid']
        real_id = self.real_ids.get(rid)
        steps = []
        step_idx = []
        end = None
        for x in range(i0 + 1, j):
            e = beh[x]['ev']
            if e['kind'] == 'popend':
                end = tuple(e['seen'])
            else:
                st = dict(e['step'])
                st['res'] = tuple(st['res'])
                if st.get('opt', 0):
                    st['optidx'] = st['opt'] - 1
                    st['opts'] = (self.in_opts if st['kind'] == 'in' else self.out_opts)[st['opt'] - 1]
                else:
                    st['opts'] = {'fb': (), 'runOrig': False, 'subst': 'none', 'failMissing': True}
                if st['kind'] == 'out' and st['res'][0] == 'none':
                    st['res'] = ('val', 'v1')
                steps.append(st)
                step_idx.append(x)
        if self.vary_threads:
            trnd = random.Random(self.beh_hash * 37 + i0)
            for st in steps:
                st['th'] = 1 if trnd.random() < 0.3 else 0
        ctx.steps = steps
        ctx.replaying = True
        ctx.journal = []
        ctx.end = end if end is not None and end[0] in ('val', 'exc') else ('val', 'v1')
        ctx.end_object = None
        log0 = len(self.spy.log)
        snap0 = self._cassette_snapshot()
        exp_cls = [None]

        def playback_function(recording):
            # the class named by the recording's metadata, as bound to the recorder that is replaying (the scripted
            # classes are created per recorder because the decorators are methods of the recorder instance)
            meta_cls = recording.get_metadata()[TapeRecorder.OPERATION_CLASS]
            exp_cls[0] = meta_cls
            parts = meta_cls.__name__.split('_')
            base = parts[0][:-3] if parts[0].endswith('Sub') else parts[0]
            op_cls = self.pyclasses[(base, parts[1] == 'x')]
            if parts[0].endswith('Sub'):
                op_cls = self._subclass_of(op_cls)
            if parts[0].endswith('c'):
                return op_cls.execute()
            return op_cls().execute()

        try:
            pb = self._in_caller_context(lambda: self.recorder.play(real_id, playback_function), i0)
            seen = ('ok', pb)
        except BaseException as ex:  # noqa
            seen = ('raise', ex)
            pb = None
        fin = beh[j]['ev']
        exp = tuple(fin['seen'])
        if exp[0] == 'ok':
            if seen[0] != 'ok':
                self._mm(out, 'pseen', j, exp, (seen[0], repr(seen[1])[:200]), 'play() outcome')
        else:
            got = self._seen_token(('abort', seen[1])) if seen[0] == 'raise' else ('ok', 'Playback')
            if got != exp:
                self._mm(out, 'pseen', j, exp, got, 'play() outcome')
        if len(ctx.journal) != len(steps):
            self._mm(out, 'pseen', i0, len(steps), len(ctx.journal), 'number of executed replay steps')
        for jr, st, x in zip(ctx.journal, steps, step_idx):
            e = beh[x]['ev']
            exp_seen = tuple(e['seen'])
            if e['kind'] in ('pin', 'pout'):
                got = jr['token']
                if got != exp_seen:
                    self._mm(out, 'pseen', x, exp_seen, got, 'replayed call of %s(%s) answered differently'
                             % (st['alias'], st.get('arg')))
                    if got[0] == 'err' and exp_seen[0] != 'err':
                        self._mm(out, 'pmissing', x, exp_seen, got, 'replay failed on a stored, complete recording')
                nb = len([b for b in jr['bodies'] if b['alias'] == st['alias'] and not b.get('inner')])
                if nb != e['bodyRuns']:
                    self._mm(out, 'pbodies', x, e['bodyRuns'], nb, 'wrapped body executed during replay')
                # an intercepted call made by an original that runs during the replay (run-original on a missing key) is
                # answered from the recording or fails with a missing key - its body never runs live
                ninner = len([b for b in jr['bodies'] if b.get('inner')])
                if ninner:
                    self._mm(out, 'pbodies', x, 0, ninner, 'body of an intercepted call made from inside a running original '
                                                           'executed during replay')
            elif e['kind'] == 'pctl' and st['kind'] == 'playdata':
                got = jr['token']        # projected when it was observed (a later step may mutate the object)
                if exp_seen[0] == 'data' and got != exp_seen:
                    self._mm(out, 'pseen', x, exp_seen, repr(got)[:100], 'play_data')
        obs['play'] = ('ok', 'Playback') if seen[0] == 'ok' else self._seen_token(('abort', seen[1]))
        obs['steps'] = [jr['token'] for jr in ctx.journal]
        obs['bodies'] = [sorted((b['alias'], b.get('inner', False)) for b in jr['bodies']) for jr in ctx.journal]
        # cassette untouched
        got_calls = [c[0] for c in self.spy.log[log0:]]
        obs['calls'] = sorted(got_calls)
        if [c for c in got_calls if c not in ('get', 'getmeta')]:
            self._mm(out, 'pcalls', j, ['get'], got_calls, 'cassette calls during play()')
        snap1 = self._cassette_snapshot()
        if snap0 != snap1:
            self._mm(out, 'pstore', j, 'unchanged', 'changed', 'cassette content changed during play()')
        self._idle_check(j, out)
        # outputs
        if pb is not None and exp[0] == 'ok':
            exp_pb = {tuple(k): v for k, v in [tuple(p) for p in fin['pbOut']]}
            got_pb_list = [(self._key_token(o.key), self._output_token(o)) for o in pb.playback_outputs]
            got_pb = dict(got_pb_list)
            obs['pb'] = sorted(got_pb_list, key=repr)
            if len(got_pb_list) != len(got_pb):
                self._mm(out, 'pbout', j, 'one entry per call', [k for k, _ in got_pb_list], 'duplicate playback outputs')
            if got_pb != exp_pb:
                self._mm(out, 'pbout', j, sorted(exp_pb.items()), sorted(got_pb.items(), key=repr), 'playback outputs')
            rec_keys = set(tuple(k) for k in fin['keys'])
            exp_rec = {tuple(k): tuple(v)[1] for k, v in _items(_store_get(beh[j]['cas']['store'], rid)['data']) if tuple(k) in rec_keys}
            got_rec = dict((self._key_token(o.key), self._output_token(o)) for o in pb.recorded_outputs)
            obs['rec'] = sorted(got_rec.items(), key=repr)
            if got_rec != exp_rec:
                self._mm(out, 'recout', j, sorted(exp_rec.items()), sorted(got_rec.items(), key=repr), 'recorded outputs')

    def _output_token(self, o):
        tk = self._key_token(o.key)
        t = self._entry_token(tk[0], o.value)
        return t[1]

    def _opt_index(self, lst, opts):
        k = _opts_key(opts)
        for i, o in enumerate(lst):
            if _opts_key(o) == k:
                return i
        raise KeyError(opts)

    def _replay_seen_token(self, seen, st):
        t, obj = seen
        if st.get('kind') == 'playdata' and t == 'val':
            return ('data', 'd1') if same_value(obj, self.ctx.user_data) else ('val', ('?', repr(obj)[:80]))
        if t == 'val':
            if st['kind'] == 'in':
                if same_value(obj, self.ctx.subst_value):
                    return ('sub', 'value')
                if st['opts']['subst'] == 'falsy' and same_value(obj, self.ctx.subst_falsy):
                    return ('sub', 'falsy')
                if isinstance(obj, tuple) and obj and obj[0] == 'callable-substitute':
                    return ('sub', 'callable')
            if st['kind'] == 'out' and same_value(obj, self.ctx.default_result):
                return ('dflt', 'd')
            return ('val', self._token_of_value(obj))
        return self._seen_token(seen)

    def _run_play_special(self, beh, i, j, out, obs):
        """play() of an id that was never saved / play() whose playback function raises before the operation."""
        kind = beh[i]['ev']['kind']
        called = []
        log0 = len(self.spy.log)
        snap0 = self._cassette_snapshot()

        def fn(recording):
            called.append(1)
            if kind == 'playraise':
                raise ScriptedError2('scripted failure of the playback function')
        rid = self.real_ids.get(beh[i]['ev']['rid']) if kind == 'playraise' else 'K1/this-id-was-never-saved'
        try:
            self.recorder.play(rid, fn)
            got = ('ok', 'Playback')
        except pbexc.TapeRecorderException as ex:
            got = ('err', type(ex).__name__)
        except ScriptedError2:
            got = ('exc', 'E2')
        except BaseException as ex:  # noqa
            got = ('err', 'FrameworkError:' + type(ex).__name__)
        exp = tuple(beh[i]['ev']['seen'])
        obs['play'] = got
        obs['called'] = len(called)
        if got != exp or (kind == 'playunknown' and called):
            self._mm(out, 'pseen', i, exp, (got, 'playback function called' if called else ''),
                     'play() of an unknown id' if kind == 'playunknown' else 'play() whose playback function raises')
        if self._cassette_snapshot() != snap0:
            self._mm(out, 'pstore', i, 'unchanged', 'changed', 'cassette changed by a failing play()')
        if [c for c in self.spy.log[log0:] if c[0] not in ('get', 'getmeta')]:
            self._mm(out, 'pcalls', i, ['get'], [c[0] for c in self.spy.log[log0:]], 'cassette calls during play()')
        self._idle_check(i, out)


class _FakeClock(object):
    """Stands in for time.time inside playback.tape_recorder: advances only when the script says so."""

    def __init__(self):
        self.now = 1000.0

    def __call__(self):
        return self.now

    def advance(self, dt):
        self.now += dt


class _CopyFaultPatch(object):
    """While a step with fault=copyFail runs, playback.tape_recorder.pickle_copy raises (as the repo's tests do)."""

    def __init__(self, ctx):
        self.ctx = ctx
        self.orig = None

    def __enter__(self):
        self.orig = tr_module.pickle_copy
        ctx = self.ctx
        orig = self.orig

        def maybe_failing(value):
            if ctx.cur is not None and ctx.cur.get('fault') == 'copyFail':
                raise RuntimeError('scripted copy failure')
            return orig(value)
        tr_module.pickle_copy = maybe_failing
        return self

    def __exit__(self, *a):
        tr_module.pickle_copy = self.orig


def _store_get(store, rid):
    if isinstance(store, (tuple, list)):
        return store[rid - 1] if 0 < rid <= len(store) else None
    return store.get(rid)


def _items(f):
    """items of a TLC function value (printed as a sequence when its domain is 1..n, <<>> when empty)"""
    if isinstance(f, (tuple, list)):
        return [(i + 1, x) for i, x in enumerate(f)]
    return list(f.items())


def _j(v):
    from .evidence import _jsonable
    return _jsonable(v)
