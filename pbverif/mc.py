"""Generation of literal MC_*.tla wrapper modules + .cfg files (cfg files cannot express tuples/records)."""
from .tlaval import to_tla


class Raw(str):
    """A TLA+ expression given verbatim."""


def tla(v):
    return v if isinstance(v, Raw) else to_tla(v)


def write_mc(scratch, base, name, consts, invariants=(), properties=(), constraints=(), action_constraints=(),
             spec=None, init='Init', next_='Next', deadlock=False, extra_defs='', view=None, extends=()):
    lines = ['---- MODULE %s ----' % name, 'EXTENDS %s' % ', '.join([base, 'TLC'] + list(extends)), '']
    cfg = []
    for k, v in consts.items():
        lines.append('c_%s == %s' % (k, tla(v)))
        cfg.append('CONSTANT %s <- c_%s' % (k, k))
    if extra_defs:
        lines.append(extra_defs)
    lines.append('====')
    scratch.write_spec(name + '.tla', '\n'.join(lines) + '\n')
    if spec:
        cfg.append('SPECIFICATION %s' % spec)
    else:
        cfg.append('INIT %s' % init)
        cfg.append('NEXT %s' % next_)
    for i in invariants:
        cfg.append('INVARIANT %s' % i)
    for p in properties:
        cfg.append('PROPERTY %s' % p)
    for c in constraints:
        cfg.append('CONSTRAINT %s' % c)
    for c in action_constraints:
        cfg.append('ACTION_CONSTRAINT %s' % c)
    if view:
        cfg.append('VIEW %s' % view)
    cfg.append('CHECK_DEADLOCK %s' % ('TRUE' if deadlock else 'FALSE'))
    scratch.write_spec(name + '.cfg', '\n'.join(cfg) + '\n')
    return name, name + '.cfg'
