"""Seeded mapping from abstract tokens to concrete Python values in the serializer's faithful domain.

The pool is validated at the start of every run against the jsonpickle the repository imports: a candidate is
kept only if decode(encode(v)) == v with equal type, alone and nested one level inside a list, a dict value and an
object attribute.  Dropped candidates are reported in the evidence.
"""
import random

from jsonpickle import encode, decode

from .values import Plain, Other, ReturnedError


def _candidates():
    return [
        0, 1, -7, 2 ** 70, 3.25, -0.0, 1e300, True, False, None,
        '', 'plain', 'quo"te\'s', u'unicodé 中文 \U0001F600', '{"json": [1, 2]}', 'back\\slash\nnewline\ttab',
        'py/object', b'bytes\x00\xff', b'',
        [], [1, 'a', None], [[1, 2], [3]], (1, 2), (1, ('n', 2)), {1, 2, 3}, set(),
        {}, {'a': 1, 'b': [1, 2]}, {'z': 1, 'a': {'m': 2, 'b': 3}}, {'b': 2, 'a': 1},
        Plain(x=1, y='s'), Plain(inner=Plain(v=[1, 2])), Other(q={'a': (1, 2)}),
        'above interception limit', 10 ** 18, 1.5, 'a' * 300,
        ([1, 2], {'k': [3]}), (Plain(m=[1]), 'x'),
        {'error_type': 'ValueError', 'error_repr': "ValueError('x')"},
    ]


def shared_candidates():
    """Values with internal sharing: jsonpickle 0.9.3 numbers shared references (py/id) inconsistently between encode
    and decode when such a value sits in a document next to other objects, so whether they round-trip depends on the
    whole document.  They are only used where the whole document is validated first (storebind.composite_is_faithful)."""
    shared = [1, 2, {'k': 'v'}]
    return [{'s1': shared, 's2': shared}, [shared, shared]]


# pairs of structurally similar values of different type: a key / value scheme that forgets types confuses them
CONFUSABLE = [((1, 2), [1, 2]), (Plain(x=1), Other(x=1)), (1, True), (1, 1.0), ('a', b'a'), ({1, 2}, [1, 2]),
              ({'a': 1}, Plain(a=1)), (0, False), ('1', 1), ((1,), [1]),
              # texts that occur in playback's own keys: the operation alias, whole key texts, the aliases of the scripted
              # classes (a key scheme that searches or rewrites key *texts* confuses arguments with structure)
              ('_tape_recorder_operation', 'output: _tape_recorder_operation #1.output'), ('input', 'ia1'),
              ('input: ia1 args=[1], kwargs=[]', 'ia2.res'), ('oa1', 'output: oa1 #1.result')]


def _deep_mutable(v, depth=0):
    if isinstance(v, (list, dict, set)) or (hasattr(v, '__dict__') and not isinstance(v, BaseException)):
        return True
    if isinstance(v, tuple) and depth < 3:
        return any(_deep_mutable(x, depth + 1) for x in v)
    return False


def _same(a, b):
    if type(a) is not type(b):
        return False
    if isinstance(a, float) and a != a:
        return b != b
    if isinstance(a, (list, tuple)):
        return len(a) == len(b) and all(_same(x, y) for x, y in zip(a, b))
    if isinstance(a, dict):
        return set(a) == set(b) and all(_same(a[k], b[k]) for k in a)
    return a == b


def same_value(a, b):
    """Equality with equal types at every level (1 != True != 1.0, list != tuple)."""
    return _same(a, b)


def _roundtrips(v):
    try:
        for wrap, unwrap in ((lambda x: x, lambda x: x), (lambda x: [x], lambda x: x[0]),
                             (lambda x: {'k': x}, lambda x: x['k']), (lambda x: Plain(a=x), lambda x: x.a)):
            w = decode(encode(wrap(v), unpicklable=True))
            if not _same(unwrap(w), v):
                return False
        return True
    except Exception:
        return False


_POOL = None
_DROPPED = None


def pool():
    global _POOL, _DROPPED
    if _POOL is None:
        _POOL, _DROPPED = [], []
        for c in _candidates():
            (_POOL if _roundtrips(c) else _DROPPED).append(c)
    return _POOL


def dropped():
    pool()
    return [repr(d)[:60] for d in _DROPPED]


class Concretisation(object):
    """token -> concrete value; distinct tokens get values that are pairwise different (by same_value)."""

    def __init__(self, seed, prefer_mutable=False, confusable=(), prefer_shallow_immutable=False):
        self.rnd = random.Random(seed)
        self.map = {}
        if confusable:   # (tokenA, tokenB): concretise as a type-confusable pair
            a, b = CONFUSABLE[(seed // 4) % len(CONFUSABLE)]
            if _roundtrips(a) and _roundtrips(b):
                self.map[confusable[0]], self.map[confusable[1]] = a, b
        self.order = list(pool())
        self.rnd.shuffle(self.order)
        if prefer_shallow_immutable:  # immutable containers (tuples) that hold mutable objects: shallow checks miss them
            self.order.sort(key=lambda v: 0 if isinstance(v, tuple) and _deep_mutable(v) else 1)
        elif prefer_mutable:  # identity / aliasing checks are only meaningful on non-interned, mutable values
            self.order.sort(key=lambda v: 0 if _deep_mutable(v) else 1)

    def value(self, token):
        if token not in self.map:
            for c in self.order:
                if not any(_same(c, v) or c == v for v in self.map.values()):
                    self.map[token] = c
                    break
            else:
                self.map[token] = 'token-%s' % token
        return self.map[token]

    def token_of(self, value):
        for t, v in self.map.items():
            if _same(v, value):
                return t
        return None
