"""Real multiprocessing smoke scenarios for the Equalizer (run as a subprocess with PLAYBACK_VERIF_TRACE set so that the
parent-side hooks log the run).  Scenarios: hangs (one of them in code that ignores SIGTERM), a worker exit, recycling,
a consumer that stops early.  Prints a JSON summary; wall-clock bounds are generous (never used by the quick tier).

    python -m pbverif.eqsmoke
"""
import json
import multiprocessing
import os
import signal
import sys
import time


def player(rid):
    from pbverif.eqbind import FakePlayback
    if rid.endswith('hang'):
        time.sleep(120)
    if rid.endswith('stubborn'):
        signal.signal(signal.SIGTERM, signal.SIG_IGN)
        time.sleep(120)
    if rid.endswith('exit'):
        os._exit(3)
    return FakePlayback(rid, 1, 'equal')


def extractor(o):
    return o


def comparator(a, b):
    from playback.studio.equalizer import ComparatorResult, EqualityStatus
    return ComparatorResult(EqualityStatus.Equal)


def run(ids, rate, stop=None):
    from playback.studio.equalizer import Equalizer, CompareExecutionConfig
    eq = Equalizer(iter(ids), player, extractor, comparator,
                   compare_execution_config=CompareExecutionConfig(compare_in_dedicated_process=True,
                                                                   compare_process_recycle_rate=rate,
                                                                   compare_process_timeout=1))
    t0 = time.time()
    out = []
    gen = eq.run_comparison()
    for c in gen:
        out.append([c.recording_id, c.comparator_status.equality_status.name,
                    c.playback.original_recording.id if c.playback is not None else None])
        if stop is not None and len(out) >= stop:
            gen.close()
            break
    wall = time.time() - t0
    time.sleep(1.5)
    left = [p.pid for p in multiprocessing.active_children() if p.is_alive()]
    for p in multiprocessing.active_children():
        if p.is_alive():
            os.kill(p.pid, signal.SIGKILL)
    return {'ids': ids, 'rate': rate, 'stop': stop, 'out': out, 'wall_s': round(wall, 1), 'left_alive': left}


def main():
    import logging
    logging.disable(logging.CRITICAL)
    res = [run(['Cat/a', 'Cat/b-hang', 'Cat/c', 'Cat/d-exit', 'Cat/e', 'Cat/f-stubborn', 'Cat/g'], 2),
           run(['Cat/a-stubborn', 'Cat/b', 'Cat/c'], 1),
           run(['Cat/a', 'Cat/b', 'Cat/c-hang', 'Cat/d', 'Cat/e'], 3, stop=3),
           run(['Cat/a', 'Cat/b', 'Cat/c', 'Cat/d', 'Cat/e'], 2)]
    print(json.dumps(res))


if __name__ == '__main__':
    main()
