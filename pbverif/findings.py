"""Known findings (/verif/known_findings.json): never written at run time.

entry: {"property": "C06", "key": "<signature>", "status": "known"|"fixed", "commit": "...", "what": "..."}
A violation is suppressed (printed as KNOWN-FINDING) only if its signature equals the key of a 'known' entry of
the same property.  'fixed' entries suppress nothing.
"""
import json
import os

VERIF = os.path.dirname(os.path.dirname(os.path.abspath(__file__)))
PATH = os.path.join(VERIF, 'known_findings.json')


def load():
    if not os.path.exists(PATH):
        return []
    with open(PATH) as f:
        return json.load(f).get('findings', [])


def known_for(prop):
    return {e['key']: e for e in load() if e.get('property') == prop and e.get('status') == 'known'}
