"""Namespace for dynamically created operation classes (jsonpickle restores class references by module path)."""
