"""Running TLC / SANY / PlusCal in a private scratch directory and parsing what they print.

All scratch (metadir, TLC's module cache, dumps, simulate traces) lives in a mkdtemp directory outside
/repo and /verif and is removed when the context ends.
"""
import os
import re
import shutil
import subprocess
import tempfile
import time
from collections import deque

from .tlaval import parse_state, parse_value

VERIF = os.path.dirname(os.path.dirname(os.path.abspath(__file__)))
SPEC_DIR = os.path.join(VERIF, 'spec')
JAR = '/opt/veriftools/tla/tla2tools.jar'
DEPS = '/opt/veriftools/tla/CommunityModules-deps.jar'
NCPU = os.cpu_count() or 4


class TLCError(RuntimeError):
    """Machinery failure (TLC crashed, parse error in a spec ...) -> exit code 2."""


def sweep_stale():
    """Remove scratch directories of earlier runs whose owning process is gone (a killed check cannot clean up; TLC
    metadirs of large runs are tens of GB)."""
    tmp = tempfile.gettempdir()
    for name in os.listdir(tmp):
        if not name.startswith('pbverif-'):
            continue
        d = os.path.join(tmp, name)
        pidf = os.path.join(d, 'owner.pid')
        try:
            if os.path.isdir(d):
                if os.path.exists(pidf):
                    with open(pidf) as f:
                        pid = int(f.read().strip() or 0)
                    if pid and os.path.exists('/proc/%d' % pid):
                        continue
                elif time.time() - os.path.getmtime(d) < 6 * 3600:
                    continue
                shutil.rmtree(d, ignore_errors=True)
            elif time.time() - os.path.getmtime(d) > 3600:
                os.remove(d)
        except Exception:
            pass


class Scratch(object):
    """mkdtemp scratch dir with a copy of /verif/spec in it."""

    def __init__(self, prefix='pbverif-'):
        sweep_stale()
        self.dir = tempfile.mkdtemp(prefix=prefix)
        with open(os.path.join(self.dir, 'owner.pid'), 'w') as f:
            f.write(str(os.getpid()))
        self.spec = os.path.join(self.dir, 'spec')
        shutil.copytree(SPEC_DIR, self.spec)

    def path(self, *p):
        return os.path.join(self.dir, *p)

    def write_spec(self, name, text):
        with open(os.path.join(self.spec, name), 'w') as f:
            f.write(text)
        return os.path.join(self.spec, name)

    def close(self):
        shutil.rmtree(self.dir, ignore_errors=True)

    def __enter__(self):
        return self

    def __exit__(self, *a):
        self.close()


class TLCResult(object):
    def __init__(self):
        self.generated = 0
        self.distinct = 0
        self.depth = 0
        self.ok = False
        self.violation = None  # name of violated invariant / property, 'deadlock', ...
        self.error_trace = []  # list of state dicts (when a counterexample was printed)
        self.stdout = ''
        self.wall_s = 0.0
        self.coverage = {}  # action name -> (distinct, total)
        self.printed = []  # parsed PrintT values
        self.cmd = ''

    def as_dict(self):
        return {'generated': self.generated, 'distinct': self.distinct, 'depth': self.depth, 'ok': self.ok,
                'violation': self.violation, 'wall_s': round(self.wall_s, 2), 'cmd': self.cmd}


_RE_STATES = re.compile(r'(\d+) states generated, (\d+) distinct states found')
_RE_DEPTH = re.compile(r'The depth of the complete state graph search is (\d+)')
_RE_INV = re.compile(r'Error: Invariant (\S+) is violated')
_RE_ACT = re.compile(r'Error: Action property (\S+) is violated')
_RE_COV = re.compile(r'^<(\w+) line (\d+), col (\d+) to line (\d+), col (\d+) of module (\w+)>: (\d+):(\d+)', re.M)
_RE_STATE_HDR = re.compile(r'^State (\d+): <(.*)>$')


def _java(scratch_dir, xmx='8g', extra_jvm=()):
    return ['java', '-XX:+UseParallelGC', '-Xmx' + xmx, '-Djava.io.tmpdir=' + scratch_dir] + list(extra_jvm) + \
           ['-cp', JAR + ':' + DEPS]


def run_tlc(scratch, module, cfg, workers=None, coverage=False, dump=None, simulate=None, depth=None, seed=None,
            timeout=3600, env=None, deadlock=None, extra=(), xmx='8g', jvm=(), expect_violation=False):
    """Run TLC on scratch.spec/<module>.tla with <cfg>. Returns TLCResult.

    dump: base path for '-dump dot,actionlabels'; simulate: dict(file=..., num=...) for -simulate.
    """
    workers = workers or NCPU
    meta = scratch.path('meta-%d' % int(time.time() * 1e6))
    cmd = _java(scratch.dir, xmx, jvm) + ['tlc2.TLC', '-workers', str(workers), '-metadir', meta, '-noGenerateSpecTE']
    if coverage:
        cmd += ['-coverage', '1']
    if dump:
        cmd += ['-dump', 'dot,actionlabels', dump]
    if simulate:
        cmd += ['-simulate', ','.join('%s=%s' % kv for kv in simulate.items())]
    if depth:
        cmd += ['-depth', str(depth)]
    if seed is not None:
        cmd += ['-seed', str(seed)]
    if deadlock is False:
        cmd += ['-deadlock']
    cmd += list(extra)
    cmd += ['-config', cfg, module + '.tla']
    e = dict(os.environ)
    e.pop('JAVA_TOOL_OPTIONS', None)
    if env:
        e.update(env)
    t0 = time.time()
    try:
        p = subprocess.run(cmd, cwd=scratch.spec, stdout=subprocess.PIPE, stderr=subprocess.STDOUT, timeout=timeout,
                           env=e, universal_newlines=True)
        out = p.stdout
        rc = p.returncode
    except subprocess.TimeoutExpired as ex:
        out = (ex.stdout or b'').decode('utf-8', 'replace') if isinstance(ex.stdout, bytes) else (ex.stdout or '')
        rc = -9
    r = TLCResult()
    r.cmd = 'tlc ' + ' '.join(cmd[cmd.index('tlc2.TLC') + 1:])
    r.wall_s = time.time() - t0
    r.stdout = out
    r.rc = rc
    shutil.rmtree(meta, ignore_errors=True)
    m = None
    for m in _RE_STATES.finditer(out):
        pass
    if m:
        r.generated, r.distinct = int(m.group(1)), int(m.group(2))
    m = _RE_DEPTH.search(out)
    if m:
        r.depth = int(m.group(1))
    for m in _RE_COV.finditer(out):
        name = m.group(1)
        d, t = int(m.group(7)), int(m.group(8))
        od, ot = r.coverage.get(name, (0, 0))
        r.coverage[name] = (od + d, ot + t)
    mi = _RE_INV.search(out)
    ma = _RE_ACT.search(out)
    if mi:
        r.violation = mi.group(1)
    elif ma:
        r.violation = ma.group(1)
    elif 'Temporal properties were violated' in out:
        r.violation = 'temporal'
    elif 'Deadlock reached' in out:
        r.violation = 'deadlock'
    elif 'is violated' in out and 'Error:' in out:
        r.violation = 'unknown'
    if r.violation:
        r.error_trace = _parse_error_trace(out)
    r.ok = ('Model checking completed. No error has been found.' in out or
            (simulate is not None and rc in (0, -9) and not r.violation and 'Error:' not in out))
    if not r.ok and not r.violation:
        if rc == -9:
            raise TLCError('TLC timed out after %ss: %s' % (timeout, r.cmd))
        raise TLCError('TLC failed (rc=%s): %s\n%s' % (rc, r.cmd, out[-12000:]))
    if r.violation and not expect_violation:
        pass
    return r


def _parse_error_trace(out):
    states = []
    cur = None
    for line in out.splitlines():
        if _RE_STATE_HDR.match(line):
            if cur is not None:
                states.append(cur)
            cur = []
        elif cur is not None:
            if line.strip() == '' or line.startswith(('Error:', 'The ', 'Finished', 'State ', 'Back to state')) or \
                    re.match(r'^\d+ states generated', line):
                if line.strip() == '':
                    states.append(cur)
                    cur = None
                continue
            cur.append(line)
    if cur:
        states.append(cur)
    res = []
    for s in states:
        try:
            res.append(parse_state('\n'.join(s)))
        except Exception:
            res.append({'_raw': '\n'.join(s)})
    return res


def sany(scratch, module):
    cmd = _java(scratch.dir) + ['tla2sany.SANY', module + '.tla']
    p = subprocess.run(cmd, cwd=scratch.spec, stdout=subprocess.PIPE, stderr=subprocess.STDOUT,
                       universal_newlines=True)
    ok = p.returncode == 0 and 'error' not in p.stdout.lower().replace('errors: 0', '')
    return ok, p.stdout


def pcal(scratch, module):
    cmd = _java(scratch.dir) + ['pcal.trans', '-nocfg', module + '.tla']
    p = subprocess.run(cmd, cwd=scratch.spec, stdout=subprocess.PIPE, stderr=subprocess.STDOUT,
                       universal_newlines=True)
    return p.returncode == 0, p.stdout


# ------------------------------------------------------------------------------------------------
# state graph dumps


def _unescape_dot(s):
    out = []
    i, n = 0, len(s)
    while i < n:
        c = s[i]
        if c == '\\' and i + 1 < n:
            nx = s[i + 1]
            if nx == 'n':
                out.append('\n')
            else:
                out.append(nx)
            i += 2
        else:
            out.append(c)
            i += 1
    return ''.join(out)


def _read_label(line, start):
    """line[start] is the opening quote; returns (raw, index after closing quote)."""
    i = start + 1
    n = len(line)
    while i < n:
        c = line[i]
        if c == '\\':
            i += 2
            continue
        if c == '"':
            return line[start + 1:i], i + 1
        i += 1
    raise ValueError('unterminated label')


class Graph(object):
    def __init__(self):
        self.states = {}  # id -> dict
        self.succ = {}  # id -> list of (label, dst)
        self.init = []

    @property
    def n_edges(self):
        return sum(len(v) for v in self.succ.values())

    def shortest_paths(self):
        """BFS tree from the initial states: id -> (pred id, label) ; init -> None"""
        pred = {}
        dq = deque()
        for i in self.init:
            pred[i] = None
            dq.append(i)
        while dq:
            u = dq.popleft()
            for lab, v in self.succ.get(u, ()):
                if v not in pred:
                    pred[v] = (u, lab)
                    dq.append(v)
        return pred

    def path_to(self, pred, node):
        path = [node]
        while pred[path[-1]] is not None:
            path.append(pred[path[-1]][0])
        path.reverse()
        return path

    def terminals(self):
        return [s for s in self.states if not [1 for _l, d in self.succ.get(s, ()) if d != s]]

    def iter_all_paths(self, cap=None):
        """All root-to-terminal paths (graph must be acyclic apart from self loops); DFS, lazily."""
        count = 0
        for i in self.init:
            stack = [(i, iter([d for _l, d in self.succ.get(i, ()) if d != i]))]
            path = [i]
            if not self.succ.get(i):
                yield list(path)
                count += 1
            while stack:
                node, it = stack[-1]
                nxt = next(it, None)
                if nxt is None:
                    stack.pop()
                    path.pop()
                    continue
                path.append(nxt)
                children = [d for _l, d in self.succ.get(nxt, ()) if d != nxt]
                if not children:
                    yield list(path)
                    count += 1
                    if cap and count >= cap:
                        return
                    path.pop()
                else:
                    stack.append((nxt, iter(children)))

    def count_paths(self):
        memo = {}
        order = []
        seen = set()
        for i in self.init:
            st = [(i, False)]
            while st:
                u, done = st.pop()
                if done:
                    order.append(u)
                    continue
                if u in seen:
                    continue
                seen.add(u)
                st.append((u, True))
                for _l, v in self.succ.get(u, ()):
                    if v not in seen and v != u:
                        st.append((v, False))
        for u in order:
            ch = [v for _l, v in self.succ.get(u, ()) if v != u]
            memo[u] = 1 if not ch else sum(memo.get(v, 0) for v in ch)
        return sum(memo[i] for i in self.init), memo

    def random_path(self, rnd):
        u = rnd.choice(self.init)
        path = [u]
        while True:
            ch = [v for _l, v in self.succ.get(u, ()) if v != u]
            if not ch:
                return path
            u = rnd.choice(ch)
            path.append(u)

    def edge_cover_paths(self, rnd=None):
        """A set of complete paths covering every edge at least once (shortest prefix + random/first extension)."""
        pred = self.shortest_paths()
        covered = set()
        paths = []
        for u in list(self.succ):
            for lab, v in self.succ[u]:
                if (u, v) in covered or u == v or u not in pred:
                    continue
                path = self.path_to(pred, u) + [v]
                for a, b in zip(path, path[1:]):
                    covered.add((a, b))
                w = v
                while True:
                    ch = [d for _l, d in self.succ.get(w, ()) if d != w]
                    if not ch:
                        break
                    unc = [d for d in ch if (w, d) not in covered]
                    nxt = (unc or ch)[0] if rnd is None else rnd.choice(unc or ch)
                    covered.add((w, nxt))
                    path.append(nxt)
                    w = nxt
                paths.append(path)
        return paths


_RE_LABEL = re.compile(r'"((?:[^"\\]|\\.)*)"')


class LazyStates(object):
    """nid -> parsed state, parsed on first access from the raw dot label (135 MB of labels parse in ~30 s, so
    the parent only touches what it needs and the forked replay workers parse the states of their own paths)."""

    def __init__(self, keep=None):
        self.raw = {}
        self.memo = {}
        self.keep = keep

    def __getitem__(self, nid):
        st = self.memo.get(nid)
        if st is None:
            st = parse_state(_unescape_dot(self.raw[nid]))
            if self.keep is not None:
                st = {k: v for k, v in st.items() if k in self.keep}
            self.memo[nid] = st
        return st

    def __len__(self):
        return len(self.raw)

    def __iter__(self):
        return iter(self.raw)

    def __contains__(self, nid):
        return nid in self.raw


def parse_dot(path, keep=None):
    """Parse a TLC '-dump dot,actionlabels' file (structure eagerly, state labels lazily)."""
    g = Graph()
    g.states = LazyStates(keep)
    raw = g.states.raw
    with open(path, 'r') as f:
        for line in f:
            if not line or line[0] not in '-0123456789':
                continue
            sp = line.find(' ')
            a = line[:sp]
            if line.startswith('-> ', sp + 1):
                sp2 = line.find(' ', sp + 4)
                b = line[sp + 4:sp2]
                m = _RE_LABEL.search(line, sp2)
                g.succ.setdefault(int(a), []).append((m.group(1), int(b)))
            elif line.startswith('[label="', sp + 1):
                m = _RE_LABEL.match(line, sp + 8)
                nid = int(a)
                raw[nid] = m.group(1)
                if line.startswith(',style = filled', m.end()):
                    g.init.append(nid)
    return g


def dump_graph(scratch, module, cfg, keep=None, workers=None, timeout=1800, max_states=400000):
    base = scratch.path('graph-%d' % int(time.time() * 1e6))
    r = run_tlc(scratch, module, cfg, workers=workers, dump=base, timeout=timeout)
    if r.violation:
        return r, None
    if r.distinct > max_states:
        raise TLCError('graph of %s/%s too large to dump (%d states)' % (module, cfg, r.distinct))
    g = parse_dot(base + '.dot', keep=keep)
    try:
        os.remove(base + '.dot')
    except OSError:
        pass
    return r, g


# ------------------------------------------------------------------------------------------------
# -simulate traces


def simulate(scratch, module, cfg, num, depth, seed, workers=1, timeout=1800):
    """Run tlc -simulate writing one file per behaviour; returns (TLCResult, list of behaviours).

    A behaviour is a list of (action_name, state dict)."""
    d = scratch.path('sim-%d' % int(time.time() * 1e6))
    os.makedirs(d)
    per = max(1, num // workers)
    r = run_tlc(scratch, module, cfg, workers=workers, simulate={'file': os.path.join(d, 'tr'), 'num': per},
                depth=depth, seed=seed, timeout=timeout)
    behs = []
    for fn in sorted(os.listdir(d)):
        behs.append(parse_sim_file(os.path.join(d, fn)))
    shutil.rmtree(d, ignore_errors=True)
    return r, behs


_RE_SIM_ACT = re.compile(r'^\\\* <(\w+) ')
_RE_SIM_STATE = re.compile(r'^STATE_(\d+) ==\s*$')


def parse_sim_file(path):
    beh = []
    act = None
    cur = None
    with open(path) as f:
        for line in f:
            line = line.rstrip('\n')
            m = _RE_SIM_ACT.match(line)
            if m:
                act = m.group(1)
                continue
            if _RE_SIM_STATE.match(line):
                cur = []
                continue
            if cur is not None:
                if line.strip() == '':
                    if cur:
                        beh.append((act, parse_state('\n'.join(cur))))
                    cur = None
                else:
                    cur.append(line)
    if cur:
        beh.append((act, parse_state('\n'.join(cur))))
    return beh


def parse_printed(out, tag):
    """Collect values printed with PrintT(<<tag, ...>>) (robust to interleaved lines: bracket matching)."""
    res = []
    needle = '<<"%s"' % tag
    i = 0
    while True:
        j = out.find(needle, i)
        if j < 0:
            break
        depth = 0
        k = j
        n = len(out)
        instr = False
        while k < n:
            c = out[k]
            if instr:
                if c == '\\':
                    k += 1
                elif c == '"':
                    instr = False
            elif c == '"':
                instr = True
            elif out.startswith('<<', k):
                depth += 1
                k += 1
            elif out.startswith('>>', k):
                depth -= 1
                k += 1
                if depth == 0:
                    break
            k += 1
        txt = out[j:k + 1]
        try:
            res.append(parse_value(txt))
        except Exception:
            pass
        i = k + 1
    return res
