"""Batched trace validation: many logged executions are checked against a trace specification in one TLC run.

traces: list of {'id': n, 'events': [...]}.  The trace spec prints <<"ACCEPT", id>> for every trace it can consume
completely; for the others the longest matched prefix is recovered with a second, per-trace run (depth of the search).
"""
import json
import os

from . import tlc


def validate(scratch, module, cfg, traces, timeout=1800):
    path = scratch.path('traces-%d.json' % len(os.listdir(scratch.dir)))
    with open(path, 'w') as f:
        json.dump(traces, f)
    r = tlc.run_tlc(scratch, module, cfg, workers=1, env={'TRACE_FILE': path}, timeout=timeout)
    if r.violation:
        raise tlc.TLCError('trace spec %s reported %s' % (module, r.violation))
    accepted = set()
    for v in tlc.parse_printed(r.stdout, 'ACCEPT'):
        accepted.add(v[1])
    rejected = [t for t in traces if t['id'] not in accepted]
    return r, accepted, rejected


def longest_prefix(scratch, module, cfg, trace, timeout=300):
    """how many events of a rejected trace the spec can consume"""
    lo, hi = 0, len(trace['events'])
    while lo < hi:
        mid = (lo + hi + 1) // 2
        t = dict(trace)     # header fields of the trace (scenario bindings) stay
        t['events'] = trace['events'][:mid]
        _r, acc, _rej = validate(scratch, module, cfg, [t], timeout)
        if acc:
            lo = mid
        else:
            hi = mid - 1
    return lo
