"""Evidence files (/verif/evidence/<id>.json) and replay files (/verif/evidence/replays/)."""
import hashlib
import json
import os
import re
import time

VERIF = os.path.dirname(os.path.dirname(os.path.abspath(__file__)))
EVID = os.environ.get('PBVERIF_EVIDENCE_DIR') or os.path.join(VERIF, 'evidence')
REPLAYS = os.path.join(EVID, 'replays')
SCHEMA = '/root/.vp/EVIDENCE.schema.json'


def _jsonable(o):
    if isinstance(o, dict):
        return {str(k): _jsonable(v) for k, v in o.items()}
    if isinstance(o, (list, tuple)):
        return [_jsonable(x) for x in o]
    if isinstance(o, (set, frozenset)):
        return sorted((_jsonable(x) for x in o), key=repr)
    if isinstance(o, (str, int, float, bool)) or o is None:
        return o
    if isinstance(o, bytes):
        return {'bytes': o.hex()}
    return repr(o)


class Report(object):
    """Accumulates what one check run covered; written as the evidence file at the end."""

    def __init__(self, prop, tier, seed):
        self.prop = prop
        self.tier = tier
        self.seed = seed
        self.t0 = time.time()
        self.states = 0
        self.transitions = 0
        self.tlc_runs = []
        self.traces = 0  # TLC behaviours replayed into the real code
        self.accepted = 0  # real executions accepted by a trace spec
        self.evaluations = 0
        self.nontrivial = set()
        self.samples = []
        self.rule = ''
        self.exhaustive = False
        self.assumptions = []
        self.violations = []  # list of dict(what, replay)
        self.known = []  # known findings reproduced
        self.extra = {}
        self.per_action = {}
        self.drift = 0

    # -- accounting -----------------------------------------------------------------------------
    def add_tlc(self, name, r, obligations=None):
        self.states += r.distinct
        self.transitions += r.generated
        d = r.as_dict()
        d['config'] = name
        if obligations:
            d['checked'] = obligations
        d['cmd'] = re.sub(r'/tmp/[^/ ,]+/', '<scratch>/', d['cmd'])
        self.tlc_runs.append(d)

    def count_action(self, a, n=1):
        self.per_action[a] = self.per_action.get(a, 0) + n

    def note_behaviour(self, key, nontrivial):
        if nontrivial:
            self.nontrivial.add(hashlib.sha1(repr(key).encode()).hexdigest()[:16])

    def sample(self, s, cap=3):
        if len(self.samples) < cap:
            self.samples.append(_jsonable(s))

    def violation(self, what, replay=None):
        """Record a violation, writing a replay file; returns the replay path."""
        os.makedirs(REPLAYS, exist_ok=True)
        # enough replay files for one run (12 per kind of violation: unsigned ones, and each signature on its own, so that
        # reproductions of known findings do not use up the files of other violations); keep counting
        sig = what.get('signature') if isinstance(what, dict) else None
        same = [v for v in self.violations if (v['what'].get('signature') if isinstance(v['what'], dict) else None) == sig]
        if len(same) >= (12 if sig is None else 2):
            self.violations.append({'what': what, 'replay': same[-1]['replay']})
            return same[-1]['replay']
        body = _jsonable({'property': self.prop, 'tier': self.tier, 'seed': self.seed, 'what': what,
                          'replay': replay})
        h = hashlib.sha1(json.dumps(body, sort_keys=True).encode()).hexdigest()[:12]
        path = os.path.join(REPLAYS, '%s-%s.json' % (self.prop, h))
        with open(path, 'w') as f:
            json.dump(body, f, indent=1, sort_keys=True)
        self.violations.append({'what': what, 'replay': path})
        return path

    # -- output ---------------------------------------------------------------------------------
    def write(self):
        os.makedirs(EVID, exist_ok=True)
        cov = {
            'states': int(self.states),
            'transitions': int(self.transitions),
            'traces_validated_against_impl': int(self.traces + self.accepted),
            'behaviours_replayed_into_code': int(self.traces),
            'executions_accepted_by_trace_spec': int(self.accepted),
            'evaluations': int(self.evaluations),
            'distinct_nontrivial': len(self.nontrivial),
            'rule': self.rule,
            'samples': self.samples or [{'note': 'no sample recorded'}],
            'exhaustive': bool(self.exhaustive),
            'tlc_runs': self.tlc_runs,
            'per_action_replayed': self.per_action,
            'drift': self.drift,
            'known_findings_reproduced': self.known,
        }
        cov.update(_jsonable(self.extra))
        ev = {
            'property_id': self.prop,
            'tier': self.tier,
            'seed': int(self.seed),
            'level': 'model_checking',
            'coverage': cov,
            'assumptions': self.assumptions,
            'wall_s': round(time.time() - self.t0, 2),
            'violations': len(self.violations),
        }
        path = os.path.join(EVID, '%s.json' % self.prop)
        try:
            import jsonschema
            with open(SCHEMA) as f:
                jsonschema.validate(ev, json.load(f))
        except ImportError:
            pass
        except Exception as ex:  # an invalid evidence file is a machinery failure
            raise RuntimeError('evidence does not validate: %s' % ex)
        with open(path, 'w') as f:
            json.dump(ev, f, indent=1, sort_keys=True)
        return path


def rerun_and_match(run_fn, body):
    """Replay for violations that have no smaller unit than the (deterministic, seeded) check itself: run the check again
    with the tier and seed recorded in the replay file and report whether the same violation (same signature, or same
    summary text) occurs again.  Returns True when the property holds on this case."""
    r2 = Report(body['property'], body.get('tier', 'quick'), int(body.get('seed', 0)))
    run_fn(r2, body.get('tier', 'quick'), int(body.get('seed', 0)))
    want = body['what'] if isinstance(body['what'], dict) else {'summary': str(body['what'])}
    hits = [v for v in r2.violations
            if (want.get('signature') and v['what'].get('signature') == want.get('signature'))
            or v['what'].get('summary') == want.get('summary')]
    for v in hits[:3]:
        print('VIOLATING', str(v['what'].get('summary'))[:500])
    if not hits and r2.violations:
        print('(%d other violation(s) on this tree, not the one in the replay file; first: %s)'
              % (len(r2.violations), str(r2.violations[0]['what'].get('summary'))[:300]))
    return not hits
