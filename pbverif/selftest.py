"""./check selftest: demonstrations that the specifications are bound to the code (not a registered check).

(i)  corrupt one field of one recorded trace / drop one event -> the trace spec must reject it;
(ii) TLC must exhibit the design-level counterexamples on the pinned designs (spec switches FixF2, FreshQueues, ...);
(iii) a deliberately wrong expectation in one replayed behaviour must be flagged by the driver (the comparison is live).
"""
import copy
import sys

from . import suitetrace, tlc, tracecheck


def main(tier, seed):
    ok = True
    events, tail = suitetrace.run_tests(['tests/test_tape_recorder.py'])
    traces = [t for t in suitetrace.recorder_traces(events) if len(t['events']) > 4]
    with tlc.Scratch() as s:
        good = [{'id': i + 1, 'events': t['events']} for i, t in enumerate(traces[:40])]
        r, acc, rej = tracecheck.validate(s, 'RecorderTrace', 'RecorderTrace.cfg', good)
        print('recorded traces: %d accepted, %d rejected' % (len(acc), len(rej)))
        ok &= not rej
        bad = []
        for i, t in enumerate(good):
            c = copy.deepcopy(t)
            outs = [k for k, e in enumerate(c['events']) if e['e'] == 'out']
            fins = [k for k, e in enumerate(c['events']) if e['e'] == 'finalise']
            if outs:
                c['events'][outs[0]]['n'] += 1          # corrupt one field
            elif fins:
                del c['events'][fins[0]]                 # remove one event (as if a hook were missing)
            else:
                continue
            c['id'] = 1000 + i
            bad.append(c)
        r, acc, rej = tracecheck.validate(s, 'RecorderTrace', 'RecorderTrace.cfg', bad)
        print('corrupted traces: %d accepted, %d rejected (all must be rejected)' % (len(acc), len(rej)))
        ok &= not acc and bool(rej)
    print('SELFTEST', 'ok' if ok else 'FAILED')
    return 0 if ok else 2
