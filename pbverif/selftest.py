"""./check selftest: demonstrations that the specifications are bound to the code (not a registered check).

(i)  corrupt one field of one recorded trace / drop one event -> the trace spec must reject it;
(ii) TLC must exhibit the design-level counterexamples on the pinned designs (spec switches FixF2, FreshQueues, ...);
(iii) a deliberately wrong expectation in one replayed behaviour must be flagged by the driver (the comparison is live).
"""
import copy
import sys

from . import suitetrace, tlc, tracecheck


def main(tier, seed):
    ok = True
    events, tail = suitetrace.run_tests(['tests/test_tape_recorder.py'])
    traces = [t for t in suitetrace.recorder_traces(events) if len(t['events']) > 4]
    with tlc.Scratch() as s:
        good = [{'id': i + 1, 'events': t['events']} for i, t in enumerate(traces[:40])]
        r, acc, rej = tracecheck.validate(s, 'RecorderTrace', 'RecorderTrace.cfg', good)
        print('recorded traces: %d accepted, %d rejected' % (len(acc), len(rej)))
        ok &= not rej
        bad = []
        for i, t in enumerate(good):
            c = copy.deepcopy(t)
            outs = [k for k, e in enumerate(c['events']) if e['e'] == 'out']
            fins = [k for k, e in enumerate(c['events']) if e['e'] == 'finalise']
            if outs:
                c['events'][outs[0]]['n'] += 1          # corrupt one field
            elif fins:
                del c['events'][fins[0]]                 # remove one event (as if a hook were missing)
            else:
                continue
            c['id'] = 1000 + i
            bad.append(c)
        r, acc, rej = tracecheck.validate(s, 'RecorderTrace', 'RecorderTrace.cfg', bad)
        print('corrupted traces: %d accepted, %d rejected (all must be rejected)' % (len(acc), len(rej)))
        ok &= not acc and bool(rej)
    ok &= equalizer_impl_traces()
    print('SELFTEST', 'ok' if ok else 'FAILED')
    return 0 if ok else 2


def equalizer_impl_traces():
    """Implementation-level binding of Equalizer.tla: scheduler logs of real dedicated-process runs are accepted by
    EqualizerImplTrace; the same logs with one field corrupted (worker started / not started, a verdict) or one event
    removed (a task taken by a worker, a kill) are rejected."""
    import logging
    from . import eqbind, mc
    from .props import c08
    logging.disable(logging.CRITICAL)
    scenarios = [(['equal', 'hangs', 'exits', 'equal'], 2, 4, {}), (['late', 'equal', 'idleExit', 'different'], 2, 4, {1: True}),
                 (['equal', 'different', 'equal', 'equal'], 3, 4, {}), (['unreadable', 'equal', 'late', 'equal'], 2, 3, {3: False}),
                 (['reportRaises', 'reportRaises', 'equal', 'reportRaises'], 2, 4, {})]
    good = []
    for i, (beh, rate, stop, late) in enumerate(scenarios):
        res = eqbind.run_dedicated(beh, rate, stop, late, False)
        if res['violations']:
            print('equalizer run failed:', res['violations'][:1])
            return False
        good.append({'id': i + 1, 'beh': beh, 'stop': stop, 'rate': rate, 'events': eqbind.impl_events(res['log'], res['out'])})
    bad = []
    for t in good:
        for kind in ('new', 'take', 'kill', 'verdict', 'ok'):
            c = copy.deepcopy(t)
            ev = c['events']
            if kind == 'new':
                k = [j for j, e in enumerate(ev) if e['e'] == 'prepare'][-1]
                ev[k]['new'] = not ev[k]['new']
            elif kind == 'take':
                k = [j for j, e in enumerate(ev) if e['e'] == 'take']
                del ev[k[0]]
            elif kind == 'kill':
                k = [j for j, e in enumerate(ev) if e['e'] == 'kill']
                if not k:
                    continue
                del ev[k[0]]
            elif kind == 'ok':
                k = [j for j, e in enumerate(ev) if e['e'] == 'answer']
                if not k:
                    continue
                ev[k[0]]['ok'] = not ev[k[0]]['ok']
            else:
                v = ev[-1]['verdicts']
                v[0] = 'Different' if v[0] != 'Different' else 'Equal'
            c['id'] = 100 * t['id'] + len(bad)
            bad.append(c)
    ok = True
    with tlc.Scratch() as s:
        for label, traces, want_accept in (('recorded', good, True), ('corrupted', bad, False)):
            acc_n = rej_n = 0
            for rate in sorted(set(t['rate'] for t in traces)):
                grp = [t for t in traces if t['rate'] == rate]
                name = 'MC_SELF_%s_%d' % (label, rate)
                mc.write_mc(s, 'EqualizerImplTrace', name,
                            c08.consts(4, c08.ALL_BEHS + c08.EXTRA_BEHS, rate, [1, 2, 3, 4]),
                            invariants=['TraceInv'], spec='TraceSpec', constraints=['Report'])
                _r, acc, rej = tracecheck.validate(s, name, name + '.cfg', grp)
                acc_n += len(acc)
                rej_n += len(rej)
            print('equalizer scheduler logs (%s): %d accepted, %d rejected' % (label, acc_n, rej_n))
            ok &= (rej_n == 0) if want_accept else (acc_n == 0 and rej_n > 0)
    return ok
