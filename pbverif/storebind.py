"""Binding of spec/Store.tla to the three cassette types (C07, C10, C11 store paths)."""
import multiprocessing as mp
import os
import random
import shutil
import tempfile
import zlib

from . import mc, tlc
from .mc import Raw
from .concretise import same_value, pool, shared_candidates
from .tlaval import to_json, from_json
from .props.c14 import py_value, py_filter

CONFIGS = ['memory', 'file', 's3:', 's3:p', 's3:p/q']
ALL_FILTERS = ['none', 'k1a', 'k1aOrNone', 'k2ge1', 'k1star_k2', 'k2is1', 'skipinc', 'skipinc_k1a', 'k1dict']


def V(ty, n=0, s=()):
    return {'ty': ty, 'n': n, 's': tuple(s)}


ABSENT = V('absent')


def meta(k1=ABSENT, k2=ABSENT, inc=ABSENT):
    return {'k1': k1, 'k2': k2, 'inc': inc}


def S(text):
    return V('str', 0, tuple(text))


METAS_SMALL = [meta(), meta(k1=S('a')), meta(k1=S('ab'), k2=V('num', 10)), meta(k2=V('num', 50), inc=V('bool', 0)),
               meta(k1=S('a'), inc=V('bool', 1)), meta(k1=V('none'), k2=V('num', 10), inc=V('none')),
               meta(k1=V('dict', 1), k2=V('num', 10)), meta(k1=V('dict', 2))]


def consts(**over):
    c = dict(Cats=['A', 'AB'], Metas=METAS_SMALL[:3], FilterNames=['none', 'k1a'], Limits=[0, 1], Randoms=[False],
             Ops=['get', 'getmeta', 'unknown', 'list', 'default'], MaxSaves=2, MaxQueries=1, Population=[],
             Probes=[False])
    c.update(over)
    return c


def to_tla_consts(c):
    def recset(lst):
        return Raw('{' + ', '.join(mc.tla(x) for x in lst) + '}')
    return dict(Cats=set(c['Cats']), Metas=recset(c['Metas']), FilterNames=set(c['FilterNames']),
                Limits=set(c['Limits']), Randoms=set(c['Randoms']), Ops=set(c['Ops']), Probes=set(c['Probes']),
                MaxSaves=c['MaxSaves'],
                MaxQueries=c['MaxQueries'],
                Population=Raw('<<' + ', '.join(mc.tla({'cat': p[0], 'meta': p[1]}) for p in c['Population']) + '>>'))


# ------------------------------------------------------------------------------------------------------------------
def make_cassette(config):
    """returns (writer, reader factory, cleanup); writer.verif_sibling() makes a writable sibling cassette (another
    in-memory cassette / another directory / another key prefix of the same bucket)"""
    if config == 'memory':
        from playback.tape_cassettes.in_memory.in_memory_tape_cassette import InMemoryTapeCassette
        c = InMemoryTapeCassette()
        c.verif_sibling = InMemoryTapeCassette
        return c, (lambda: c), (lambda: None)
    if config == 'file':
        from playback.tape_cassettes.file_based.file_based_tape_cassette import FileBasedTapeCassette
        d = tempfile.mkdtemp(prefix='pbverif-store-')
        c = FileBasedTapeCassette(d)
        c.verif_sibling = lambda: FileBasedTapeCassette(os.path.join(d, 'sibling-suite'))
        return c, (lambda: FileBasedTapeCassette(d)), (lambda: shutil.rmtree(d, ignore_errors=True))
    if config.startswith('s3:'):
        from .fake_boto3 import make_s3_cassette, reopen_s3_cassette
        c = make_s3_cassette(key_prefix=config[3:], read_only=False)
        c.verif_sibling = lambda: reopen_s3_cassette(c, key_prefix=(config[3:] + '_suite') if config[3:] else 'suite')
        return c, (lambda: reopen_s3_cassette(c, read_only=True)), (lambda: None)
    raise KeyError(config)


KEY_TEXTS = ['plain', 'quo"te', "apos'trophe", u'unicodé 中文', 'a/b', 'a_b', 'dot.json', 'hash #1', '{"json": 1}',
             'back\\slash', 'new\nline', 'input: x args=[], kwargs=[]', 'output: y #1.output', '', ' ',
             'tab\t', '%s %d', 'A/AB', '../up', '__metadata', '_meta', 'metadata']


def make_data(rnd, rich):
    """key text -> value; rich: adversarial key texts and values from the faithful pool, incl. shared sub-objects"""
    if not rich:
        return {'k': {'value': rnd.randrange(1000)}}
    vals = pool() + shared_candidates()
    n = rnd.randrange(0, 5)
    data = {}
    shared = rnd.choice([[1, 2, {'s': 'hared'}], {'sh': [1, 2]}])
    for _ in range(n):
        k = rnd.choice(KEY_TEXTS)
        r = rnd.random()
        if r < 0.2:
            data[k] = {'value': shared, 'again': [shared]}
        elif r < 0.3:
            data[k] = shared
        else:
            data[k] = {'value': rnd.choice(vals)}
    return data


def py_meta(m, rnd=None, rich=False):
    from playback.tape_recorder import TapeRecorder
    out = {}
    names = {'k1': 'k1', 'k2': 'k2', 'inc': TapeRecorder.INCOMPLETE_RECORDING}
    for k, nm in names.items():
        if m[k]['ty'] != 'absent':
            out[nm] = py_value(m[k])
    if rich and rnd is not None:
        out['extra'] = rnd.choice([v for v in pool() if not isinstance(v, (bytes, set, tuple)) and
                                   not hasattr(v, '__dict__')][:20])
        if rnd.random() < 0.25:
            # values that are not plain JSON: metadata fetched on its own keeps their types as the full recording does
            out['window'] = (1, 5)
            out['marks'] = {'since': (2020, 1), 'kinds': [('a', 1)]}
        if rnd.random() < 0.3:
            # the same list / dict object in two places of the metadata (whole-document validation applies)
            shared = rnd.choice([['blue', 'green'], {'sh': [1, 2]}])
            out['tags'] = shared
            out['more'] = {'again': shared, 'n': 1}
    return out


def py_filter_dict(fdef):
    from playback.tape_recorder import TapeRecorder
    names = {'k1': 'k1', 'k2': 'k2', 'inc': TapeRecorder.INCOMPLETE_RECORDING}
    items = fdef.items() if isinstance(fdef, dict) else []
    return {names[k]: py_filter(f) for k, f in items}


def composite_is_faithful(data, meta):
    """Is this recording content inside the serializer's faithful domain *as a whole document*?

    jsonpickle 0.9.3 numbers shared references (py/id) differently when encoding and decoding some documents that mix
    shared lists/dicts with objects; such documents do not round-trip through encode/decode at all, independently of
    playback.  The properties quantify over the faithful domain, so such content is not generated (it is counted)."""
    from jsonpickle import encode, decode
    try:
        for doc in ({'recording_data': data, 'recording_metadata': meta},
                    dict(list(data.items()) + [('_metadata', meta)]), meta):
            if not same_value(decode(encode(doc, unpicklable=True)), doc):
                return False
        return True
    except Exception:
        return False


def mutate_everything(recording):
    """Mutate everything reachable from a fetched recording through its public surface."""
    from .recbind import mutate_in_place
    n = 0
    for k in list(recording.get_all_keys()):
        n += mutate_in_place(recording.get_data(k))
        n += mutate_in_place(recording[k])
        try:
            n += mutate_in_place(recording.get_data_direct(k))
        except Exception:
            pass
    md = recording.get_metadata()
    for k in list(md):
        n += mutate_in_place(md[k])
    md['MUTATED'] = 'MUTATED'
    try:
        recording.set_data('MUTATED', 'MUTATED')
    except Exception:
        pass
    return n + 1


class StoreDriver(object):
    def __init__(self, filters, config, seed, rich=False):
        self.filters = filters  # name -> parsed TLA filter function
        self.config = config
        self.seed = seed
        self.rich = rich
        self.outside_domain = 0

    def run(self, beh):
        from playback import exceptions as pbexc
        from playback.tape_recorder import TapeRecorder
        from playback.studio.recordings_lookup import find_matching_recording_ids, RecordingLookupProperties
        out = []
        h = zlib.crc32(repr([(s['ev']['kind'], s['ev']['cat'], s['ev']['id']) for s in beh]).encode()) ^ self.seed
        rnd = random.Random(h)
        writer, reader_factory, cleanup = make_cassette(self.config)
        ids = []
        saved = []

        def mm(cat, idx, exp, obs, note):
            out.append({'cat': cat, 'step': idx, 'expected': repr(exp)[:400], 'observed': repr(obs)[:400], 'note': note})

        def do_save(cat, m, probe=False, idx=0):
            r = writer.create_new_recording(cat)
            cross = None
            reentrant = False
            if probe:
                # the id exists, nothing is stored under it yet: looked up through the very cassette that will save it
                for fn, name in ((writer.get_recording, 'get_recording'), (writer.get_recording_metadata, 'get_recording_metadata')):
                    try:
                        got = fn(r.id)
                        mm('unknown', idx, 'NoSuchRecording', got, '%s(%r) of a created, not yet saved recording' % (name, r.id))
                    except pbexc.NoSuchRecording:
                        pass
                    except Exception as ex:  # noqa
                        mm('unknown', idx, 'NoSuchRecording', repr(ex), '%s(%r) of a created, not yet saved recording' % (name, r.id))
            for _attempt in range(20):
                data = make_data(rnd, self.rich)
                pm = py_meta(m, rnd, self.rich)
                if self.rich and rnd.random() < 0.3:
                    # one list object referenced from a data value (under a key that sorts before the cassette's own
                    # bookkeeping keys) *and* from the metadata, where it occurs twice
                    cross = ['eu', 'priority']
                    data['Request "tags"'] = {'value': {'tags': cross, 'other': [1]}}
                    pm['tags'] = cross
                    pm['more'] = {'again': cross, 'n': 1}
                if self.rich and ids and rnd.random() < 0.25:
                    # a value that, while the recording is being serialised, fetches an earlier recording from the very
                    # cassette that is saving (its key sorts first); shared sub-objects follow it in the same document
                    from .values import Reentrant
                    reentrant = True
                    sh = ['shared', 1]
                    data['A reentrant value'] = {'value': Reentrant(len(ids))}
                    data['z shared'] = {'value': sh, 'again': [sh, sh]}
                if not self.rich or composite_is_faithful(data, pm):
                    break
                self.outside_domain += 1
            else:
                data, pm = {'k': {'value': 1}}, py_meta(m)
            for k, v in data.items():
                r.set_data(k, v)
            r.add_metadata(pm)
            if reentrant:
                from .values import Reentrant

                def hook():
                    other = writer.get_recording(ids[0]) if self.config == 'memory' else reader_factory().get_recording(ids[0])
                    for kk in other.get_all_keys():
                        other.get_data(kk)
                Reentrant.hook = hook
            try:
                writer.save_recording(r)
            finally:
                if reentrant:
                    Reentrant.hook = None
            ids.append(r.id)
            import copy
            saved.append((copy.deepcopy(data), copy.deepcopy(pm)))
            # what was handed to the recording belongs to the caller, who goes on using (and changing) it after the save
            from .recbind import mutate_in_place
            for v in list(data.values()) + list(pm.values()):
                mutate_in_place(v)
            pm['CHANGED-AFTER-SAVE'] = True
            data['CHANGED-AFTER-SAVE'] = True
            if probe:
                try:
                    full = writer.get_recording(r.id)
                    alone = writer.get_recording_metadata(r.id)
                    data0, pm0 = saved[-1]
                    if set(full.get_all_keys()) != set(data0) or not same_value(dict(alone), pm0) or \
                            not same_value(dict(full.get_metadata()), pm0):
                        mm('roundtrip', idx, (sorted(data0), pm0), (sorted(full.get_all_keys()), dict(alone)),
                           'recording fetched through the saving cassette right after the save')
                except Exception as ex:  # noqa
                    mm('roundtrip', idx, 'recording %s' % r.id, repr(ex),
                       'saved recording cannot be fetched through the cassette that saved it (it was looked up before the save)')
        try:
            for p in beh[0]['saved']:
                do_save(p['cat'], p['meta'])
            for idx, st in enumerate(beh[1:], 1):
                e = st['ev']
                k = e['kind']
                reader = reader_factory()
                if k == 'save':
                    try:
                        do_save(e['cat'], e['meta'], bool(e.get('probed')), idx)
                    except Exception as ex:  # noqa
                        mm('save', idx, 'saved', repr(ex), 'save failed')
                        return out
                elif k in ('get', 'mutate'):
                    rid = ids[e['id'] - 1]
                    data, pm = saved[e['id'] - 1]
                    try:
                        rec = reader.get_recording(rid)
                    except Exception as ex:  # noqa
                        mm('roundtrip', idx, 'recording %s' % rid, repr(ex), 'saved recording cannot be fetched')
                        continue
                    if rec.id != rid:
                        mm('roundtrip', idx, rid, rec.id, 'id of the fetched recording')
                    keys = set(rec.get_all_keys())
                    if keys != set(data):
                        mm('roundtrip', idx, sorted(data), sorted(keys), 'key set of the fetched recording')
                    else:
                        for kk in data:
                            if not same_value(rec.get_data(kk), data[kk]):
                                mm('roundtrip', idx, data[kk], rec.get_data(kk), 'data under key %r' % kk)
                    if not same_value(dict(rec.get_metadata()), pm):
                        mm('roundtrip', idx, pm, dict(rec.get_metadata()), 'metadata of the fetched recording')
                    if k == 'mutate':
                        try:
                            mutate_everything(rec)
                        except Exception as ex:  # noqa
                            mm('roundtrip', idx, 'a readable recording', repr(ex),
                               'a key listed by the fetched recording cannot be read back from it')
                            continue
                        try:
                            # a second fetch through the same cassette object and through a new one
                            for rd in (reader, reader_factory()):
                                rec2 = rd.get_recording(rid)
                                ok = set(rec2.get_all_keys()) == set(data) and \
                                    all(same_value(rec2.get_data(kk), data[kk]) for kk in data) and \
                                    same_value(dict(rec2.get_metadata()), pm)
                                if not ok:
                                    mm('aliasing', idx, (data, pm),
                                       ({kk: rec2.get_data(kk) for kk in rec2.get_all_keys()}, dict(rec2.get_metadata())),
                                       'a later fetch observes a mutation made through an earlier fetch')
                            # reads of one fetched recording are fresh copies
                            rec3 = reader.get_recording(rid)
                            for kk in data:
                                from .recbind import mutate_in_place
                                mutate_in_place(rec3.get_data(kk))
                                if not same_value(rec3.get_data(kk), data[kk]):
                                    mm('aliasing', idx, data[kk], rec3.get_data(kk), 'second read of key %r sees a mutation of the first' % kk)
                        except Exception as ex:  # noqa
                            mm('roundtrip', idx, 'a readable recording', repr(ex),
                               'a recording fetched again cannot be read back completely')
                elif k == 'resave':
                    rid = ids[e['id'] - 1]
                    try:
                        again = reader_factory().get_recording(rid) if self.config != 'memory' else writer.get_recording(rid)
                        added = py_meta(e['meta'])        # the entries added before the re-save (merged into the stored ones)
                        again.add_metadata(added)
                        writer.save_recording(again)
                        saved[e['id'] - 1][1].update(added)
                    except Exception as ex:  # noqa
                        mm('save', idx, 'saved again', repr(ex), 'saving a fetched recording again under its id failed')
                elif k == 'promote':
                    # copy into a sibling cassette with added metadata; this cassette keeps what it had (looked at through
                    # the same reader before and after, and through a new one)
                    rid = ids[e['id'] - 1]
                    data, pm = saved[e['id'] - 1]
                    try:
                        before = dict(reader.get_recording_metadata(rid))
                        sibling = writer.verif_sibling()
                        copy_ = (reader_factory() if self.config != 'memory' else writer).get_recording(rid)
                        added = py_meta(e['meta'])
                        added['promoted-into'] = 'suite'
                        copy_.add_metadata(added)
                        sibling.save_recording(copy_)
                        merged = dict(pm)
                        merged.update(added)
                        theirs = dict(sibling.get_recording_metadata(rid))
                        if not same_value(theirs, merged):
                            mm('roundtrip', idx, merged, theirs, 'metadata of the copy saved into the sibling cassette')
                        for rd in (reader, reader_factory()):
                            alone = dict(rd.get_recording_metadata(rid))
                            full = dict(rd.get_recording(rid).get_metadata())
                            if not same_value(alone, pm) or not same_value(full, pm) or not same_value(before, pm):
                                mm('roundtrip', idx, pm, (alone, full),
                                   'metadata of a stored recording after a copy of it was saved into a sibling cassette '
                                   '(fetched alone / with the recording)')
                        sib_ids = list(sibling.iter_recording_ids(e['cat']))
                        if sib_ids != [rid]:
                            mm('list', idx, [rid], sib_ids, 'ids listed by the sibling cassette after one recording was copied into it')
                    except Exception as ex:  # noqa
                        mm('save', idx, 'copied into a sibling cassette', repr(ex), 'saving a fetched recording into a sibling cassette failed')
                elif k == 'failsave':
                    from .values import UnsavableResult
                    r = writer.create_new_recording(e['cat'])
                    r.set_data('fine', {'value': 1})
                    r.set_data('poison', {'value': UnsavableResult('v')})
                    r.add_metadata({'k1': 'a'})
                    try:
                        writer.save_recording(r)
                        mm('save', idx, 'an error', 'no error', 'saving a recording that cannot be serialised succeeded')
                    except Exception:  # noqa  (expected: the cassette cannot store it)
                        pass
                    for fn, name in ((reader.get_recording, 'get_recording'), (reader.get_recording_metadata, 'get_recording_metadata')):
                        try:
                            got = fn(r.id)
                            mm('unknown', idx, 'NoSuchRecording', got, '%s(%r) of a recording whose save failed' % (name, r.id))
                        except pbexc.NoSuchRecording:
                            pass
                        except Exception as ex:  # noqa
                            mm('unknown', idx, 'NoSuchRecording', repr(ex), '%s(%r) of a recording whose save failed' % (name, r.id))
                elif k == 'getmeta':
                    rid = ids[e['id'] - 1]
                    data, pm = saved[e['id'] - 1]
                    try:
                        alone = reader.get_recording_metadata(rid)
                        full = reader.get_recording(rid).get_metadata()
                        if not same_value(dict(alone), dict(full)) or not same_value(dict(alone), pm):
                            mm('roundtrip', idx, pm, (dict(alone), dict(full)), 'metadata fetched alone / with the recording / saved')
                        else:
                            # what a fetch hands out belongs to the caller: editing it changes nothing that is stored
                            from .recbind import mutate_in_place
                            try:
                                for v in list(alone.values()):
                                    mutate_in_place(v)
                                alone['EDITED-BY-THE-CALLER'] = True
                            except Exception:  # noqa  (an immutable mapping is fine too)
                                pass
                            for rd in (reader, reader_factory()):
                                again = rd.get_recording_metadata(rid)
                                if not same_value(dict(again), pm):
                                    mm('aliasing', idx, pm, dict(again),
                                       'metadata fetched again after the caller edited what an earlier fetch returned')
                    except Exception as ex:  # noqa
                        mm('roundtrip', idx, pm, repr(ex), 'metadata fetch failed')
                elif k == 'unknown':
                    base = ids[-1] if ids else 'A/x'
                    u = e['unknown']
                    if u == 'fresh':
                        uid = base.rsplit('/', 1)[0] + '/00000000deadbeef0000000000000000' if ids else 'A/00000000deadbeef'
                    elif u == 'prefix':
                        uid = base[:-1]
                    elif u == 'extension':
                        uid = base + 'x'
                    else:
                        uid = 'ZZ' + base
                    for fn, name in ((reader.get_recording, 'get_recording'), (reader.get_recording_metadata, 'get_recording_metadata')):
                        try:
                            got = fn(uid)
                            mm('unknown', idx, 'NoSuchRecording', got, '%s(%r) of an id that was never saved' % (name, uid))
                        except pbexc.NoSuchRecording:
                            pass
                        except Exception as ex:  # noqa
                            mm('unknown', idx, 'NoSuchRecording', repr(ex), '%s(%r) of an id that was never saved' % (name, uid))
                elif k in ('list', 'default'):
                    flt = py_filter_dict(self.filters[e['filter']])
                    limit = e['limit'] or None
                    try:
                        if k == 'list':
                            got = list(reader.iter_recording_ids(e['cat'], metadata=flt or None, limit=limit,
                                                                 random_results=bool(e['random'])))
                        else:
                            user = {kk: vv for kk, vv in flt.items() if kk in ('k1', 'k2')}
                            got = list(find_matching_recording_ids(
                                TapeRecorder(reader), e['cat'],
                                RecordingLookupProperties(start_date=None, metadata=user or None, limit=limit)))
                    except Exception as ex:  # noqa
                        mm('lookup', idx, 'a listing', repr(ex), 'lookup of category %r with filter %s raised' % (e['cat'], e['filter']))
                        continue
                    exp = set(ids[i - 1] for i in e['matches'])
                    if len(got) != len(set(got)):
                        mm('lookup', idx, 'no duplicates', got, 'duplicate ids in the listing')
                    if not set(got) <= exp:
                        mm('lookup', idx, sorted(exp), sorted(got), 'listing of category %r filter %s contains ids that do not match'
                           % (e['cat'], e['filter']))
                    if len(set(got)) != e['count'] and not (e['limit'] == 0 and False):
                        mm('lookup', idx, e['count'], len(set(got)), 'number of ids listed (category %r, filter %s, limit %s; %d match)'
                           % (e['cat'], e['filter'], limit, len(exp)))
                    for rid in set(got):
                        try:
                            reader.get_recording(rid)
                        except Exception as ex:  # noqa
                            mm('lookup', idx, 'fetchable', repr(ex), 'listed id %r cannot be fetched' % rid)
                    if k == 'list' and not e['random']:
                        # the metadata iterator is the same lookup, yielding the metadata of the listed recordings
                        try:
                            metas = list(reader.iter_recordings_metadata(e['cat'], metadata=flt or None, limit=limit))
                            want = [saved[ids.index(rid)][1] for rid in got] if len(set(got)) == len(got) else None
                            if want is not None and (len(metas) != len(want) or
                                                     sorted(repr(sorted(dict(m).items(), key=repr)) for m in metas) !=
                                                     sorted(repr(sorted(w.items(), key=repr)) for w in want)):
                                mm('lookup', idx, want, metas, 'iter_recordings_metadata differs from the metadata of the listed recordings')
                        except Exception as ex:  # noqa
                            mm('lookup', idx, 'metadata of the listed recordings', repr(ex), 'iter_recordings_metadata raised')
        finally:
            cleanup()
        return out


# ------------------------------------------------------------------------------------------------------------------
_G = {}


def _work(task):
    import hashlib
    name, items, config, seed, cats, rich = task
    g = _G['graphs'][name]
    d = StoreDriver(_G['filters'], config, seed, rich)
    res = []
    for it in items:
        beh = [g.states[n] for n in it]
        try:
            mm = d.run(beh)
        except Exception as ex:  # noqa
            import traceback
            mm = [{'cat': 'harness', 'step': -1, 'expected': '', 'observed': traceback.format_exc()[-1500:], 'note': repr(ex)}]
        summ = [dict((k, v) for k, v in (('a', s['ev']['kind']), ('cat', s['ev']['cat']), ('id', s['ev']['id']),
                                        ('filter', s['ev']['filter']), ('limit', s['ev']['limit']),
                                        ('unknown', s['ev']['unknown'])) if v not in ('', 0)) for s in beh[1:]]
        r = {'mm': mm, 'sig': hashlib.sha1(repr(summ).encode()).hexdigest()[:16], 'len': len(beh),
             'kinds': [s['ev']['kind'] for s in beh[1:]]}
        bad = [m for m in mm if m['cat'] in cats]
        if bad or len(res) < 1:
            r['summary'] = summ
        if bad:
            r['beh_json'] = [to_json(s) for s in beh]
        res.append(r)
    return name, config, seed, res


class StoreCheck(object):
    def __init__(self, rep, tier, seed, cats, nontrivial_kinds):
        self.rep = rep
        self.tier = tier
        self.seed = seed
        self.cats = set(cats)
        self.nt = set(nontrivial_kinds)
        self.scratch = tlc.Scratch()
        self.filters = None
        self.all_exhaustive = True

    def close(self):
        self.scratch.close()
        self.rep.exhaustive = bool(self.rep.exhaustive and self.all_exhaustive)

    def _filters(self):
        """FilterDef evaluated by TLC (single source of truth for the filters used by model and harness)."""
        if self.filters is not None:
            return self.filters
        c = consts()
        extra = 'ASSUME PrintT(<<"FILTERS", [n \\in {%s} |-> FilterDef(n)]>>)' % ', '.join('"%s"' % n for n in ALL_FILTERS)
        mc.write_mc(self.scratch, 'Store', 'MC_filters', to_tla_consts(consts(MaxSaves=0, MaxQueries=0, Ops=[])), extra_defs=extra)
        r = tlc.run_tlc(self.scratch, 'MC_filters', 'MC_filters.cfg', workers=1)
        vals = tlc.parse_printed(r.stdout, 'FILTERS')
        self.filters = dict(vals[0][1])
        return self.filters

    def run_config(self, name, c, configs=CONFIGS, all_paths=True, cap=20000, sample=0, rich=False, n_seeds=1,
                   invariants=('ListSound', 'CountBound', 'DefaultExcludesExactlyIncomplete', 'AbsentKeyNeverMatchesPlain')):
        flt = self._filters()
        mod = 'MC_%s_%s' % (self.rep.prop, name)
        mc.write_mc(self.scratch, 'Store', mod, to_tla_consts(c), invariants=list(invariants))
        r, g = tlc.dump_graph(self.scratch, mod, mod + '.cfg')
        self.rep.add_tlc(name, r, obligations=list(invariants))
        if r.violation:
            self.rep.violation({'summary': 'TLC: %s violated on Store config %s' % (r.violation, name),
                                'signature': 'tlc:%s:%s' % (name, r.violation)})
            return
        rnd = random.Random(self.seed * 31 + len(self.rep.tlc_runs))
        total, _ = g.count_paths()
        if all_paths and total <= cap:
            paths = list(g.iter_all_paths())
            exhaustive = True
        else:
            paths = g.edge_cover_paths(rnd)
            seen = set(tuple(p) for p in paths)
            tries = 0
            while len(paths) < cap and tries < cap * 3 and len(seen) < total:
                p = tuple(g.random_path(rnd))
                tries += 1
                if p not in seen:
                    seen.add(p)
                    paths.append(list(p))
            exhaustive = False
        self.all_exhaustive = self.all_exhaustive and exhaustive
        self.rep.extra.setdefault('generating', []).append(
            {'config': name, 'graph_states': len(g.states), 'complete_paths': total, 'paths_replayed': len(paths),
             'all_paths': exhaustive, 'cassette_configs': list(configs)})
        _G.setdefault('graphs', {})[name] = g
        _G['filters'] = flt
        tasks = []
        for cfgname in configs:
            for k in range(n_seeds):
                for i in range(0, len(paths), 50):
                    tasks.append((name, paths[i:i + 50], cfgname, self.seed * 977 + k, self.cats, rich))
        ctx = mp.get_context('fork')
        with ctx.Pool(min(tlc.NCPU, max(1, len(tasks)))) as pool_:
            for nm, cfgname, sd, res in pool_.imap_unordered(_work, tasks):
                for rr in res:
                    self._account(nm, c, cfgname, sd, rr, rich)
        _G['graphs'][name] = None
        return exhaustive

    def _account(self, name, c, cfgname, sd, r, rich):
        rep = self.rep
        rep.traces += 1
        rep.evaluations += 1
        if self.nt & set(r['kinds']):
            rep.nontrivial.add(r['sig'])
        for k in r['kinds']:
            rep.count_action(k)
        if 'summary' in r and len(rep.samples) < 3:
            rep.sample({'config': name, 'cassette': cfgname, 'behaviour': r['summary']})
        mm = r['mm']
        harness = [m for m in mm if m['cat'] == 'harness']
        if harness:
            raise RuntimeError('harness failure on a behaviour of %s: %s' % (name, harness[0]['observed']))
        bad = [m for m in mm if m['cat'] in self.cats]
        rep.drift += len(mm) - len(bad)
        if bad:
            first = bad[0]
            rep.violation({'summary': '[%s] %s: %s (expected %s, observed %s)' % (cfgname, first['cat'], first['note'],
                                                                               first['expected'][:160], first['observed'][:200]),
                           'signature': self_signature(cfgname, first), 'mismatches': bad[:5]},
                          replay={'kind': 'store', 'cassette': cfgname, 'seed': sd, 'rich': rich,
                                  'behaviour': r.get('beh_json'), 'summary': r.get('summary')})


def self_signature(cfgname, m):
    return None


def replay_file(rep, body, cats):
    rp = body['replay']
    sc = StoreCheck(rep, 'quick', 0, cats, [])
    try:
        flt = sc._filters()
    finally:
        sc.close()
    d = StoreDriver(flt, rp['cassette'], rp['seed'], rp.get('rich', False))
    beh = [from_json(s) for s in rp['behaviour']]
    mm = d.run(beh)
    for m in mm:
        print(('VIOLATING ' if m['cat'] in cats else 'drift     ') + str(m)[:600])
    return not [m for m in mm if m['cat'] in cats]
