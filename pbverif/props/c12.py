"""C12 Asynchronous recording stores exactly what synchronous recording would."""
import json
import multiprocessing as mp
import random
import threading

from .. import mc, tlc, tracecheck
from ..detsched import Scheduler, make_threading, Deadlock, StepLimit
from ..mc import Raw
from ..tlaval import to_json, from_json

INVS = ['ExactlyOnceInOrder', 'AtClose', 'ProducersNeverWait']
KINDS = {'1': 'set', '2': 'meta', '3': 'save'}
WORKLOADS = {
    'w1': {'p1': ['a1', 'a2', 'a3']},
    'w2': {'p1': ['a1', 'a3'], 'p2': ['b1', 'b3']},
    'w3': {'p1': ['a1', 'a2', 'a3'], 'p2': ['b1', 'b3']},
    'w4': {'p1': ['a1', 'a3'], 'p2': ['b1'], 'p3': ['c1', 'c3']},
}


def tla_consts(script, failing, maxtimer, variant=False):
    return dict(Producers=set(script),
                Script=Raw('(' + ' @@ '.join('"%s" :> %s' % (p, mc.tla(tuple(o))) for p, o in sorted(script.items())) + ')'),
                Failing=set(failing), MaxTimer=maxtimer, ClearAfterExec=variant)


STEP_EVENTS = {'acquire', 'is_set', 'storage', 'wait', 'set', 'joined', 'storage_close'}


class ModelChooser(object):
    """Follows the movers of a TLC behaviour: the next model mover is run until it has emitted one step event."""

    def __init__(self, moves):
        self.moves = [m for m in moves if m != 'tm']
        self.i = 0
        self.drift = 0
        self.seen = 0
        self.target = None
        self.violations = []

    def __call__(self, enabled, sched):
        # did the current target complete a model-level step since the last decision?
        new = sched.log[self.seen:]
        self.seen = len(sched.log)
        if self.target is not None and any(e['by'] == self.target and e['e'] in STEP_EVENTS for e in new):
            self.target = None
        # callers never wait for the wrapped storage
        fl = sched.parts.get('fl')
        if fl is not None and fl.label == 'storage' and any(l.owner == 'fl' for l in sched.locks):
            for n, p in sched.parts.items():
                if n.startswith('p') and p.state == 'blocked' and p.label == 'lock.wait' and not p.pred():
                    self.violations.append('producer %s waits for the lock, which the flusher holds while it is inside the '
                                           'wrapped storage' % n)
        names = dict((n, h) for n, h in enabled if h == 'run')
        # a guest that was given the baton at a line-anchor preemption keeps it for a few scheduling decisions (a request
        # consists of several boundary calls: lock, append, unlock, possibly more) while the preempted participant waits
        hold = getattr(self, 'hold', None)
        if hold is not None:
            guest, left = hold
            self.hold = (guest, left - 1) if left > 1 else None
            if guest in names:
                return (guest, 'run')
            self.hold = None
        # a participant just preempted at a line anchor lets somebody else run first
        for n in list(names):
            p = sched.parts[n]
            mark = p.label + str(len(sched.preemptions))
            if p.label.startswith('anchor:') and getattr(p, 'anchor_served', None) != mark:
                p.anchor_served = mark
                others = sorted(k for k in names if k != n)
                if others:
                    self.target = None
                    guest = others[len(sched.preemptions) % len(others)]
                    self.hold = (guest, (len(sched.preemptions) * 7 + self.i) % 5)   # 0-4 further decisions
                    if self.hold[1] == 0:
                        self.hold = None
                    return (guest, 'run')
        # only the flush-interval timer may fire: the join time-out of close() is assumed not to expire
        touts = dict((n, h) for n, h in enabled if h == 'timeout' and n == 'fl')
        if self.target is None and self.i < len(self.moves):
            self.target = self.moves[self.i]
            self.i += 1
        if self.target is not None:
            if self.target in names:
                return (self.target, 'run')
            if self.target in touts:
                return (self.target, 'timeout')
            self.drift += 1
            self.target = None
        if names:
            return sorted(names.items())[0]
        if touts:
            return sorted(touts.items())[0]
        raise Deadlock('only assumed-away time-outs could fire: %s' % (enabled,))


def execute(script, failing, moves, anchor_seed=None):
    """Run the real AsyncRecordOnlyTapeCassette under the deterministic scheduler along a TLC behaviour."""
    import playback.tape_cassettes.asynchronous.async_record_only_tape_cassette as am
    from playback.tape_cassettes.in_memory.in_memory_tape_cassette import InMemoryTapeCassette
    from playback.recordings.memory.memory_recording import MemoryRecording
    from playback.tape_cassette import TapeCassette
    chooser = ModelChooser(moves)
    sched = Scheduler(chooser, urgency=False, max_steps=5000)
    if anchor_seed is not None:
        sched.set_anchors(am.__file__.replace('.pyc', '.py'), r'_recording_operation_buffer|_started|current_flushed_operations',
                          random.Random(anchor_seed), budget=2, prob=0.2)
    Lock, Event, Thread = make_threading(sched)
    failing = set(failing)
    tokens = {}

    class SpyRecording(MemoryRecording):
        def _set_data(self, key, value):
            _storage_op(key)
            super(SpyRecording, self)._set_data(key, value)

        def _add_metadata(self, metadata):
            _storage_op(sorted(metadata)[0])
            super(SpyRecording, self)._add_metadata(metadata)

    def _storage_op(token):
        sched.yield_point('storage')
        ok = token not in failing
        sched.emit('storage', o=token, ok=ok)
        if not ok:
            # what a storage raises varies with the token and with the schedule: one argument, (errno, text), none at all,
            # and types that code likes to use as its own control-flow signals (empty container, exhausted iterator)
            n = (sum(bytearray(str(token).encode())) + len(moves)) % 6
            if n == 0:
                raise IOError('scripted storage failure on %s' % token)
            if n == 1:
                raise OSError(28, 'No space left on device (scripted, %s)' % token)
            if n == 2:
                raise KeyError()
            if n == 3:
                raise IndexError('list index out of range (scripted, %s)' % token)
            if n == 4:
                raise StopIteration()
            import queue as _queue
            raise _queue.Empty()

    class SpyStorage(TapeCassette):
        def __init__(self):
            self.saved = {}
            self.closed = False

        def create_new_recording(self, category):
            r = SpyRecording('%s/%d' % (category, len(tokens)))
            return r

        def _save_recording(self, recording):
            _storage_op(tokens[recording.id])
            self.saved[recording.id] = (dict(recording.recording_data), dict(recording.recording_metadata))

        def get_recording(self, recording_id):
            raise NotImplementedError

        def iter_recording_ids(self, *a, **k):
            raise NotImplementedError

        def extract_recording_category(self, recording_id):
            return recording_id.split('/')[0]

        def close(self):
            sched.yield_point('storage')
            sched.emit('storage_close')
            self.closed = True

    class YieldingLogger(object):
        # the cassette's log calls are call-outs as well: preemption points between its other statements
        def _log(self, *a, **k):
            sched.yield_point('log')
        info = debug = warning = exception = error = _log
    olds = (am.Lock, am.Event, am.Thread, am._logger)
    am.Lock, am.Event, am.Thread, am._logger = Lock, Event, Thread, YieldingLogger()
    result = {'drift': 0, 'violations': [], 'log': None}
    try:
        wrapped = SpyStorage()
        cas = am.AsyncRecordOnlyTapeCassette(wrapped, flush_interval=1.0, timeout_on_close=10 ** 6)
        cas._update_recording_thread.det_name = 'fl'
        cas.start()
        recs = {}
        for p, ops in sorted(script.items()):
            r = cas.create_new_recording('Cat' + p)
            recs[p] = r
            for o in ops:
                if KINDS[o[-1]] == 'save':
                    tokens[r.id] = o

        def producer(p):
            def run():
                r = recs[p]
                for o in script[p]:
                    k = KINDS[o[-1]]
                    if k == 'set':
                        r.set_data(o, {'v': [o, 1]})
                    elif k == 'meta':
                        r.add_metadata({o: 1})
                    else:
                        cas.save_recording(r)
            return run
        for p in sorted(script):
            sched.spawn(p, producer(p))

        def closer():
            sched.block_until(lambda: all(sched.parts[p].state == 'done' for p in script), None, 'await-producers')
            cas.close()
            sched.emit('close_returned')
        sched.spawn('cl', closer)
        try:
            sched.run()
        except (Deadlock, StepLimit) as ex:
            result['violations'].append('the run does not finish: %s' % ex)
        for n, p in sched.parts.items():
            if p.exc is not None:
                result['violations'].append('participant %s raised %r' % (n, p.exc))
        log = sched.log
        # requests in lock order: each producer 'acquire' is its next scripted operation
        nxt = dict((p, 0) for p in script)
        events = []
        for e in log:
            if e['e'] == 'acquire' and e['by'] in script:
                p = e['by']
                if nxt[p] < len(script[p]):
                    events.append({'e': 'req', 'o': script[p][nxt[p]]})
                    nxt[p] += 1
            elif e['e'] == 'storage':
                events.append({'e': 'app' if e['ok'] else 'fail', 'o': e['o']})
            elif e['e'] == 'close_returned':
                events.append({'e': 'close', 'o': ''})
        result['events'] = events
        # implementation-level log: the boundary events that correspond to the blocks of the PlusCal specification
        impl = []
        for e in log:
            if e['e'] == 'acquire' and e['by'] in script:
                impl.append({'e': 'acquire', 'by': e['by'], 'o': '', 'n': 0, 'flag': False, 'ok': False})
            elif e['e'] == 'acquire' and e['by'] == 'fl':
                impl.append({'e': 'acquire', 'by': 'fl', 'o': '', 'n': int(e.get('n', -1)), 'flag': False, 'ok': False})
            elif e['e'] == 'is_set' and e['by'] == 'fl':
                impl.append({'e': 'is_set', 'by': 'fl', 'o': '', 'n': 0, 'flag': bool(e['value']), 'ok': False})
            elif e['e'] == 'storage':
                impl.append({'e': 'storage', 'by': 'fl', 'o': e['o'], 'n': 0, 'flag': False, 'ok': bool(e['ok'])})
            elif e['e'] == 'wait' and e['by'] == 'fl':
                impl.append({'e': 'wait', 'by': 'fl', 'o': '', 'n': 0, 'flag': False, 'ok': bool(e['ok'])})
            elif e['e'] == 'set' and e['by'] == 'cl':
                impl.append({'e': 'set', 'by': 'cl', 'o': '', 'n': 0, 'flag': False, 'ok': False})
            elif e['e'] == 'joined' and e['by'] == 'cl':
                impl.append({'e': 'joined', 'by': 'cl', 'o': '', 'n': 0, 'flag': False, 'ok': False})
            elif e['e'] == 'storage_close':
                impl.append({'e': 'storage_close', 'by': 'cl', 'o': '', 'n': 0, 'flag': False, 'ok': False})
        nxt2 = dict((p, 0) for p in script)
        for e in impl:
            if e['e'] == 'acquire' and e['by'] in script:
                p = e['by']
                e['o'] = script[p][nxt2[p]] if nxt2[p] < len(script[p]) else 'extra'
                nxt2[p] += 1
        result['implog'] = impl
        requested = [e['o'] for e in events if e['e'] == 'req']
        applied = [e['o'] for e in events if e['e'] == 'app']
        expected = [o for o in requested if o not in failing]
        if applied != expected:
            result['violations'].append('operations reaching the wrapped storage %s differ from the requests in request order %s'
                                        % (applied, expected))
        if not wrapped.closed or not any(e['e'] == 'close' for e in events):
            result['violations'].append('close() did not complete / wrapped cassette not closed')
        # the same workload recorded synchronously
        twin = {}
        for p, ops in script.items():
            data, meta, saved = {}, {}, False
            for o in ops:
                if o in failing:
                    continue
                k = KINDS[o[-1]]
                if k == 'set':
                    data[o] = {'v': [o, 1]}
                elif k == 'meta':
                    meta[o] = 1
                else:
                    saved = True
            if saved:
                twin[recs[p].id] = (data, meta)
        if wrapped.saved != twin:
            result['violations'].append('stored recordings %r differ from synchronous recording %r' % (wrapped.saved, twin))
        result['violations'] += chooser.violations[:3]
        result['drift'] = chooser.drift
        result["steps"] = sched.steps; result["trace"] = list(sched.trace)
        result['preempted'] = len(set(n for n, _l, _h in sched.trace))
    finally:
        am.Lock, am.Event, am.Thread, am._logger = olds
        sched.shutdown()
    return result


_G = {}


def _work(task):
    name, script, failing, items, every = task
    g = _G[name]
    out = []
    import zlib
    for k, it in enumerate(items):
        moves = [g.states[n]['who'] for n in it[1:]]
        res = execute(script, failing, moves)
        res['moves'] = moves
        res['anchor_seed'] = None
        out.append(res)
        if k % every == 0:   # plus randomised preemptions at line anchors (accesses to the shared buffer)
            aseed = zlib.crc32(repr((name, moves)).encode()) & 0xffffff
            r2 = execute(script, failing, moves, anchor_seed=aseed)
            r2['moves'] = moves
            r2['anchor_seed'] = aseed
            out.append(r2)
    return name, out


def run(rep, tier, seed):
    rep.rule = ('behaviours = complete paths of the TLC state graph of spec/AsyncCassette.tla (PlusCal; 1-3 producers with '
                'small recording workloads, flusher, flush-interval timer firing 0-2 times, closer, every placement of a '
                'failing wrapped operation); each path is a schedule (who moves at each step) that is replayed on the real '
                'AsyncRecordOnlyTapeCassette under the deterministic baton scheduler (fake Lock / Event / Thread installed as '
                'the module-level names; storage calls are yield points); oracle: operations reaching the wrapped storage = '
                'requests in lock order, each once, failing ones skipped; stored recordings = synchronous twin; close() '
                'completes; no producer waits for the lock while the flusher is inside the storage; the boundary-event log of '
                'every run is validated by TLC against spec/AsyncTrace.tla. non-trivial = schedule in which a producer moves '
                'after the flusher\'s first move; distinct = mover sequence')
    rep.assumptions = ['the join time-out of close() does not expire', 'no request is issued after close() begins',
                       'line/yield-point granularity: races inside one atomic block (between two yield points) are out of reach']
    rnd = random.Random(seed + 12)
    quick = tier == 'quick'
    cap = 1500 if quick else 40000
    configs = []
    for w in (['w1', 'w2', 'w3'] if quick else ['w1', 'w2', 'w3', 'w4']):
        script = WORKLOADS[w]
        ops = [o for p in sorted(script) for o in script[p]]
        fails = [[]] + [[o] for o in ops]
        if quick:
            fails = fails[:1] + rnd.sample(fails[1:], min(2, len(fails) - 1))
        for f in fails:
            configs.append((w, script, f))
    all_traces = []
    impl_logs = []
    with tlc.Scratch() as s:
        mc.write_mc(s, 'AsyncCassette', 'MC_C12_variant', tla_consts(WORKLOADS['w2'], [], 1, variant=True), invariants=INVS, spec='Spec')
        r = tlc.run_tlc(s, 'MC_C12_variant', 'MC_C12_variant.cfg')
        rep.add_tlc('design variant: buffer emptied after executing a copy', r)
        rep.extra['design_counterexample'] = {'variant': 'ClearAfterExec', 'tlc_violation': r.violation}
        if r.violation is None:
            raise tlc.TLCError('the ClearAfterExec design variant should violate ExactlyOnceInOrder')
        for idx, (w, script, failing) in enumerate(configs):
            name = 'MC_C12_%s_%d' % (w, idx)
            mc.write_mc(s, 'AsyncCassette', name, tla_consts(script, failing, 1 if quick else 2), invariants=INVS,
                        properties=['CloseTerminates'], spec='Spec')
            r, g = tlc.dump_graph(s, name, name + '.cfg', max_states=900000)
            rep.add_tlc('%s failing=%s' % (w, failing), r, obligations=INVS + ['CloseTerminates (liveness, weak fairness)'])
            if r.violation:
                rep.violation({'summary': 'TLC: %s violated on AsyncCassette %s failing=%s' % (r.violation, w, failing),
                               'signature': 'tlc:%s' % r.violation})
                continue
            total, _ = g.count_paths()
            if total <= cap:
                paths = list(g.iter_all_paths())
            else:
                paths = g.edge_cover_paths(rnd)
                if len(paths) > cap:
                    rnd.shuffle(paths)
                    paths = paths[:cap]
                seen = set(map(tuple, paths))
                tries = 0
                while len(paths) < cap and tries < cap * 3:
                    tries += 1
                    p = tuple(g.random_path(rnd))
                    if p not in seen:
                        seen.add(p)
                        paths.append(list(p))
            rep.extra.setdefault('generating', []).append({'workload': w, 'failing': failing, 'graph_states': len(g.states),
                                                           'complete_paths': total, 'schedules_replayed': len(paths)})
            for n in set(x for p in paths for x in p):
                g.states[n]
            _G[name] = g
            tasks = [(name, script, failing, paths[i:i + 60], 3 if quick else 1) for i in range(0, len(paths), 60)]
            ctx = mp.get_context('fork')
            with ctx.Pool(min(tlc.NCPU, max(1, len(tasks)))) as pool:
                for nm, out in pool.imap_unordered(_work, tasks):
                    for res in out:
                        rep.traces += 1
                        rep.evaluations += 1
                        rep.drift += res['drift']
                        mv = res['moves']
                        first_fl = mv.index('fl') if 'fl' in mv else len(mv)
                        rep.note_behaviour((nm, tuple(mv)), any(m.startswith('p') for m in mv[first_fl:]))
                        if len(rep.samples) < 3 and res['drift'] == 0 and len(mv) > 8:
                            rep.sample({'workload': w, 'failing': failing, 'movers': mv, 'events': res.get('events')})
                        all_traces.append({'id': len(all_traces) + 1, 'events': res.get('events') or [], 'w': w, 'failing': failing,
                                           'moves': mv})
                        if res.get('anchor_seed') is None and not res['violations']:
                            impl_logs.append({'id': len(impl_logs) + 1, 'events': res.get('implog') or []})
                        if res['violations']:
                            rep.violation({'summary': '%s (workload %s, failing %s)' % (res['violations'][0][:300], w, failing),
                                           'signature': None, 'all': res['violations'][:4]},
                                          replay={'kind': 'schedule', 'workload': w, 'failing': failing, 'moves': mv, 'anchor_seed': res.get('anchor_seed')})
            _G[name] = None
            # implementation level: the scheduler's log of the plain (not line-anchored) runs must be a behaviour of the
            # PlusCal specification itself (AsyncImplTrace reuses its actions); a rejection is model drift, not an alarm
            impl = [t for t in impl_logs if t['events']][:400]
            del impl_logs[:]
            if impl:
                tname = 'MC_C12_impl_%d' % idx
                mc.write_mc(s, 'AsyncImplTrace', tname, tla_consts(script, failing, 60), invariants=['TraceInv'],
                            spec='TraceSpec', constraints=['Report'])
                r2, acc2, rej2 = tracecheck.validate(s, tname, tname + '.cfg', impl)
                rep.add_tlc('AsyncImplTrace (%s failing=%s): %d scheduler logs against the PlusCal actions' % (w, failing, len(impl)), r2)
                rep.accepted += len(acc2)
                st = rep.extra.setdefault('implementation_level_traces', {'validated': 0, 'accepted': 0, 'rejected_as_drift': 0})
                st['validated'] += len(impl)
                st['accepted'] += len(acc2)
                st['rejected_as_drift'] += len(rej2)
                if rej2 and 'rejected_sample' not in st:
                    k = tracecheck.longest_prefix(s, tname, tname + '.cfg', rej2[0])
                    st['rejected_sample'] = {'workload': w, 'failing': failing, 'matched_prefix': k,
                                             'next_event': rej2[0]['events'][k] if k < len(rej2[0]['events']) else None}
        # direction B: every boundary-event log is validated by TLC against the observable-level trace spec
        if all_traces:
            for i in range(0, len(all_traces), 4000):
                batch = all_traces[i:i + 4000]
                r, acc, rej = tracecheck.validate(s, 'AsyncTrace', 'AsyncTrace.cfg',
                                                  [{'id': t['id'], 'events': t['events']} for t in batch])
                rep.add_tlc('AsyncTrace validation of %d logged executions' % len(batch), r)
                rep.accepted += len(acc)
                for t in rej[:5]:
                    k = tracecheck.longest_prefix(s, 'AsyncTrace', 'AsyncTrace.cfg', {'id': t['id'], 'events': t['events']})
                    nxt = t['events'][k] if k < len(t['events']) else None
                    full = [x for x in batch if x['id'] == t['id']][0]
                    rep.violation({'summary': 'logged execution rejected by AsyncTrace after %d events; next event %s (workload %s, failing %s)'
                                              % (k, nxt, full['w'], full['failing']), 'signature': None},
                                  replay={'kind': 'schedule', 'workload': full['w'], 'failing': full['failing'], 'moves': full['moves']})
    rep.extra['scheduler_drift_total'] = rep.drift
    # direction B: free-running real threads (the repository's async tests) under the guarded hooks
    from .. import suitetrace
    events, tail = suitetrace.run_tests(['tests/test_cassettes/async'])
    rep.extra['suite_run'] = tail
    suitetrace.validate(rep, 'tests/test_cassettes/async (free-running threads)', 'AsyncTrace', suitetrace.async_traces(events))
    # ... and seeded free-running workloads with real threads and a real flusher (no scheduler), logged by the same hooks
    free_running(rep, seed, 40 if quick else 1500)
    composition(rep, tier, seed)


def _keeps(beh):
    return any(st['ev']['decision'] == 'keep' for st in beh)


def composition(rep, tier, seed):
    """The property at the level a user meets it: TapeRecorder -> AsyncRecordOnlyTapeCassette (real flusher thread) ->
    in-memory cassette must leave the store Recorder.tla prescribes for direct recording (behaviours of the recorder
    specification with faults, discards, forcing and interrupts; see recprops._AsyncComposite)."""
    from ..recprops import RecorderCheck, K
    from . import c05
    chk = RecorderCheck(rep, tier, seed, {'store_presence', 'store_keys', 'store_values', 'finalised', 'pmissing'},
                        _keeps)
    try:
        chk.generate('composition', c05.gen_consts(3, Classes=[K('K1')], Draws=['low'], InCalls=[('ia2', 1)],
                                                   OutAliases=['oa2'], SaveFails=[False]),
                     cassettes=('async',), n_conc=1 if tier == 'quick' else 4, sample=500 if tier == 'quick' else 20000)
    finally:
        chk.close()


def free_running(rep, seed, n):
    import os
    import subprocess
    import sys
    import tempfile
    from .. import suitetrace
    fd, path = tempfile.mkstemp(prefix='pbverif-asyncfree-', suffix='.ndjson')
    os.close(fd)
    os.remove(path)
    env = dict(os.environ)
    env['PLAYBACK_VERIF_TRACE'] = path
    env['PYTHONPATH'] = os.pathsep.join([p for p in sys.path if p])
    p = subprocess.run([sys.executable, '-m', 'pbverif.asyncfree', str(seed), str(n)], env=env, stdout=subprocess.PIPE,
                       stderr=subprocess.PIPE, universal_newlines=True, timeout=1800,
                       cwd=os.path.dirname(os.path.dirname(os.path.dirname(os.path.abspath(__file__)))))
    events = []
    if os.path.exists(path):
        with open(path) as f:
            for line in f:
                try:
                    events.append(json.loads(line))
                except ValueError:
                    pass
        os.remove(path)
    try:
        out = json.loads(p.stdout.strip().splitlines()[-1])
    except Exception:
        raise RuntimeError('free-running workload driver failed: %s %s' % (p.stdout[-300:], p.stderr[-600:]))
    rep.extra['free_running_workloads'] = out
    rep.evaluations += n
    if not out['all_equal']:
        rep.violation({'summary': 'free-running threads: %d of %d workloads stored something else than synchronous recording'
                                  % (n - out['equal_to_synchronous_twin'], n), 'signature': None},
                      replay={'kind': 'free', 'seed': seed, 'n': n})
    suitetrace.validate(rep, 'seeded free-running workloads (real threads, %d runs)' % n, 'AsyncTrace', suitetrace.async_traces(events))


def replay(rep, body):
    rp = body['replay']
    if rp.get('kind') == 'suite-trace':
        from .. import suitetrace
        return suitetrace.replay_trace(body)
    if 'behaviour' in rp:
        from ..recprops import replay_file
        return replay_file(rep, body, {'store_presence', 'store_keys', 'store_values', 'finalised', 'pmissing'})
    res = execute(WORKLOADS[rp['workload']], rp['failing'], rp['moves'], rp.get('anchor_seed'))
    for v in res['violations']:
        print('VIOLATING', v[:500])
    print('events:', res.get('events'))
    return not res['violations']
