"""C20 File interception preserves file bytes and honours the size limit."""
import os
import random
import shutil
import tempfile

from .. import mc, tlc

INVS = ['PlaceholderIffAbove', 'NeverReadAbove', 'RoundTrip', 'RestoredAtReplayPath']
PLACEHOLDER = b'above interception limit'
MB = 1024 * 1024


def limit_of(src):
    # explicit: 1/1024 MB = exactly 1024 bytes; env: PLAYBACK_INTERCEPTED_FILE_SIZE_LIMIT=1 (1 MiB); envbig: =3 (3 MiB)
    return {'explicit': 1024, 'env': MB, 'envbig': 3 * MB, 'zero': 0, 'envfrac': 0}[src]


def size_of(cls, limit):
    if limit == 0:    # a limit of zero: only the empty file is not above it
        return {'empty': 0, 'tiny': len(PLACEHOLDER), 'Lp1': 1, 'big': 4099}[cls]
    return {'empty': 0, 'tiny': len(PLACEHOLDER), 'Lm1': limit - 1, 'L': limit, 'Lp1': limit + 1, 'big': 2 * limit + 17}[cls]


def content_of(cls, n, rnd):
    if cls == 'emptyBytes' or n == 0:
        return b''
    if cls == 'placeholderText':
        return PLACEHOLDER[:n]
    if cls == 'binary':
        pat = bytes(bytearray(range(256))) + b'\x00\x00\xff\xfe'
    elif cls == 'newlines':
        pat = b'line1\r\nline2\nline3\r\r\n\n'
    elif cls == 'base64ish':
        pat = b'QUJD=='
    else:
        pat = bytes(bytearray(rnd.randrange(256) for _ in range(977)))
    return (pat * (n // len(pat) + 1))[:n]


def trip(cfg, seed):
    """One full trip on the real code; returns dict(recorded_placeholder, read, restored, restored_at, errors)."""
    import playback.interception.files.file_interception as fi
    from playback.interception.files.input_file_interception import InputInterceptionFileDataHandler
    from playback.interception.files.output_file_interception import OutputInterceptionFileDataHandler
    from playback.tape_recorder import TapeRecorder
    from ..recprops import CASSETTES
    rnd = random.Random(seed)
    limit = limit_of(cfg['limitSrc'])
    n = size_of(cfg['size'], limit)
    content = content_of(cfg['content'], n, rnd)
    tmp = tempfile.mkdtemp(prefix='pbverif-c20-')
    old_env = os.environ.get('PLAYBACK_INTERCEPTED_FILE_SIZE_LIMIT')
    opened = []
    real_open = open

    def spy_open(path, mode='r', *a, **k):
        opened.append((path, mode))
        return real_open(path, mode, *a, **k)
    fi.open = spy_open
    res = {'errors': []}
    fac, refetch = CASSETTES[cfg['cassette']]
    inner = fac()
    try:
        if cfg['limitSrc'] in ('explicit', 'zero'):
            lim = limit / float(MB)
        else:
            os.environ['PLAYBACK_INTERCEPTED_FILE_SIZE_LIMIT'] = {'env': '1', 'envbig': '3', 'envfrac': '0.5'}[cfg['limitSrc']]
            lim = None
        path = os.path.join(tmp, 'recorded.bin')
        other = os.path.join(tmp, 'replayed-elsewhere.bin')
        tr = TapeRecorder(inner)
        tr.enable_recording()
        by_kw = cfg['pathBy'] == 'keyword'
        ih = InputInterceptionFileDataHandler(1, 'dest', lim)
        oh = OutputInterceptionFileDataHandler(0, 'src', lim)
        target = {'path': path}

        class Op(object):
            @tr.operation()
            def execute(self):
                p = target['path']
                if cfg['role'] == 'input':
                    return self.download(dest=p) if by_kw else self.download(p)
                with real_open(p, 'wb') as f:
                    f.write(content)
                return self.upload(src=p) if by_kw else self.upload(p)

            @tr.intercept_input('download', data_handler=ih, capture_args=[])  # the path is not part of the key
            def download(self, dest):
                with real_open(dest, 'wb') as f:
                    f.write(content)
                return dest

            @tr.intercept_output('upload', data_handler=oh)
            def upload(self, src):
                return 'stored'
        import pbverif.opclasses as oc
        Op.__module__ = oc.__name__
        Op.__qualname__ = Op.__name__ = 'FileOp_%d' % (id(Op) % 100000)
        setattr(oc, Op.__name__, Op)
        Op().execute()
        rid = None
        fetcher = refetch(inner) if refetch else inner
        ids = list(fetcher.iter_recording_ids(Op.__name__))
        if len(ids) != 1:
            res['errors'].append('expected one saved recording, found %r' % (ids,))
            return res
        rid = ids[0]
        rec = fetcher.get_recording(rid)
        key = [k for k in rec.get_all_keys() if ('download' in k or ('upload' in k and k.endswith('.output')))]
        data = rec.get_data(key[0])
        payload = data['value'] if cfg['role'] == 'input' else data
        res['recorded_placeholder'] = payload.get('file_content') == PLACEHOLDER
        res['read'] = any(p == path and 'r' in m for p, m in opened)
        # replay
        os.remove(path)
        if cfg['replayPath'] == 'other':
            target['path'] = other
        pre = cfg.get('pre', 'absent')
        if cfg['role'] == 'input' and pre != 'absent':
            # something is already at the path the replayed call names
            there = {'sameSizeOtherBytes': bytes(bytearray(b ^ 0x5a for b in bytearray(content))),
                     'shorter': content[:len(content) // 2], 'identical': content}[pre]
            with real_open(target['path'], 'wb') as f:
                f.write(there)
        tr2 = TapeRecorder(fetcher)
        # replay with the class as rebuilt around the replaying recorder is not needed: decorators consult `tr`
        tr.tape_cassette = fetcher
        if cfg['role'] == 'output':
            with real_open(path, 'wb') as f:
                f.write(content)
        pb = tr.play(rid, lambda recording: Op().execute())
        if cfg['role'] == 'input':
            where = target['path']
            res['restored_at'] = 'other' if where == other else 'same'
            if os.path.exists(where):
                with real_open(where, 'rb') as f:
                    res['restored'] = f.read()
            else:
                res['restored'] = None
            stray = other if where == path else path
            res['stray'] = os.path.exists(stray)
        else:
            outs = [o for o in pb.recorded_outputs if 'upload' in o.key]
            holder = oh.restore_output_from_recording(outs[0].value)
            res['restored_at'] = 'holder'
            res['restored'] = holder.file_content
            dst = os.path.join(tmp, 'from-holder.bin')
            holder.to_file(dst)
            with real_open(dst, 'rb') as f:
                if f.read() != holder.file_content:
                    res['errors'].append('holder.to_file wrote other bytes than holder.file_content')
        res['content'] = content
        return res
    except Exception as ex:  # noqa
        import traceback
        res['errors'].append(traceback.format_exc()[-600:])
        return res
    finally:
        try:
            del fi.open
        except AttributeError:
            pass
        if old_env is None:
            os.environ.pop('PLAYBACK_INTERCEPTED_FILE_SIZE_LIMIT', None)
        else:
            os.environ['PLAYBACK_INTERCEPTED_FILE_SIZE_LIMIT'] = old_env
        shutil.rmtree(tmp, ignore_errors=True)
        try:
            inner.close()
        except Exception:
            pass


def trip_twice(cfg, seed):
    """Two files of the same size, other bytes and the same modification time pass through one handler at one path during
    one operation: every interception records (and every replay restores) the bytes the file had at that moment."""
    import playback.interception.files.file_interception as fi
    from playback.interception.files.input_file_interception import InputInterceptionFileDataHandler
    from playback.interception.files.output_file_interception import OutputInterceptionFileDataHandler
    from playback.tape_recorder import TapeRecorder, CapturedArg
    from ..recprops import CASSETTES
    rnd = random.Random(seed)
    limit = limit_of(cfg['limitSrc'])
    n = size_of(cfg['size'], limit)
    first = content_of(cfg['content'], n, rnd)
    second = bytes(bytearray(b ^ 0x33 for b in bytearray(first)))
    contents = {'first': first, 'second': second}
    above = n > limit
    tmp = tempfile.mkdtemp(prefix='pbverif-c20-')
    old_env = os.environ.get('PLAYBACK_INTERCEPTED_FILE_SIZE_LIMIT')
    res = {'errors': [], 'recorded_placeholder': above, 'read': False, 'restored_at': 'holder' if cfg['role'] == 'output' else 'same',
           'content': b'', 'restored': b''}
    fac, refetch = CASSETTES[cfg['cassette']]
    inner = fac()
    stamp = 1600000000
    try:
        if cfg['limitSrc'] in ('explicit', 'zero'):
            lim = limit / float(MB)
        else:
            os.environ['PLAYBACK_INTERCEPTED_FILE_SIZE_LIMIT'] = {'env': '1', 'envbig': '3', 'envfrac': '0.5'}[cfg['limitSrc']]
            lim = None
        path = os.path.join(tmp, 'same-path.bin')
        tr = TapeRecorder(inner)
        tr.enable_recording()
        ih = InputInterceptionFileDataHandler(1, 'dest', lim)
        oh = OutputInterceptionFileDataHandler(0, 'src', lim)
        got = []

        def put(p, data):
            with open(p, 'wb') as f:
                f.write(data)
            os.utime(p, (stamp, stamp))

        class Op(object):
            @tr.operation()
            def execute(self):
                for tag in ('first', 'second'):
                    if cfg['role'] == 'input':
                        self.download(path, tag)
                        with open(path, 'rb') as f:
                            got.append(f.read())
                    else:
                        put(path, contents[tag])
                        self.upload(path)
                return 'done'

            @tr.intercept_input('download', data_handler=ih, capture_args=[CapturedArg(2, 'tag')])
            def download(self, dest, tag):
                put(dest, contents[tag])
                return dest

            @tr.intercept_output('upload', data_handler=oh)
            def upload(self, src):
                return 'stored'
        import pbverif.opclasses as oc
        Op.__module__ = oc.__name__
        Op.__qualname__ = Op.__name__ = 'FileOp2_%d' % (id(Op) % 100000)
        setattr(oc, Op.__name__, Op)
        Op().execute()
        fetcher = refetch(inner) if refetch else inner
        ids = list(fetcher.iter_recording_ids(Op.__name__))
        if len(ids) != 1:
            res['errors'].append('expected one saved recording, found %r' % (ids,))
            return res
        del got[:]
        if os.path.exists(path):
            os.remove(path)
        tr.tape_cassette = fetcher
        pb = tr.play(ids[0], lambda recording: Op().execute())
        exp = [PLACEHOLDER, PLACEHOLDER] if above else [first, second]
        if cfg['role'] == 'input':
            restored = list(got)
        else:
            outs = sorted((o for o in pb.recorded_outputs if 'upload' in o.key and o.key.endswith('.output')), key=lambda o: o.key)
            restored = [oh.restore_output_from_recording(o.value).file_content for o in outs]
        if restored != exp:
            res['errors'].append('two same-size files at one path: the %s interception(s) restored other bytes than the file had '
                                 'when it was intercepted' % [i + 1 for i in range(min(len(exp), len(restored))) if restored[i] != exp[i]]
                                 if len(restored) == len(exp) else 'two files intercepted, %d restored' % len(restored))
        return res
    except Exception:  # noqa
        import traceback
        res['errors'].append(traceback.format_exc()[-600:])
        return res
    finally:
        if old_env is None:
            os.environ.pop('PLAYBACK_INTERCEPTED_FILE_SIZE_LIMIT', None)
        else:
            os.environ['PLAYBACK_INTERCEPTED_FILE_SIZE_LIMIT'] = old_env
        shutil.rmtree(tmp, ignore_errors=True)
        try:
            inner.close()
        except Exception:
            pass


def judge(cfg, st, res):
    """compare one trip with the model's final state; returns list of (what, expected, observed)"""
    bad = []
    if res['errors']:
        return [('trip failed', 'a full trip', res['errors'][0][-300:])]
    above = st['recorded'] == 'placeholder'
    if res['recorded_placeholder'] != above:
        bad.append(('recorded form', 'placeholder' if above else 'bytes', 'placeholder' if res['recorded_placeholder'] else 'bytes'))
    if above and res['read']:
        bad.append(('file above the limit was opened for reading', False, True))
    exp = PLACEHOLDER if above else res['content']
    if res['restored'] != exp:
        bad.append(('restored bytes', '%d bytes %r...' % (len(exp), exp[:12]),
                    None if res['restored'] is None else '%d bytes %r...' % (len(res['restored']), res['restored'][:12])))
    if res['restored_at'] != st['restoredAt']:
        bad.append(('restored at', st['restoredAt'], res['restored_at']))
    if res.get('stray'):
        bad.append(('file also written at the path not named by the replayed call', False, True))
    return bad


def run(rep, tier, seed):
    rep.rule = ('terminal states of spec/FileHandler.tla = size class (empty, placeholder-length, limit-1, limit, limit+1 '
                'byte, well above) x content class x limit source (explicit = 1024 bytes, environment variable = 1 MiB, '
                '3 MiB in the thorough tier so that files larger than 1 MiB are below the limit) x input / output handler x '
                'path by position / keyword x cassette type x replay path (same / another path) x what is already at that path (nothing, other bytes of the same size, a shorter file, the same bytes); each is one full trip '
                'recorder -> cassette -> fetch -> replay on the real handlers with a spy on open(); oracle: placeholder iff '
                'size > limit, above-limit files never opened for reading, byte-identical restore at the path named by the '
                'replayed call (inputs) / in the holder (outputs). non-trivial = every trip; distinct = configuration')
    rep.assumptions = ['PLAYBACK_INTERCEPTED_FILE_SIZE_LIMIT is truncated to a whole number of MB by the code (0.5 -> 0: every '
                       'non-empty file is above the limit, like an explicit limit of 0)',
                       'byte contents are sampled per content class (seeded)']
    quick = tier == 'quick'
    consts = dict(Sizes={'empty', 'tiny', 'Lm1', 'L', 'Lp1', 'big'},
                  Contents={'emptyBytes', 'binary', 'newlines', 'placeholderText', 'random', 'base64ish'},
                  LimitSrcs={'explicit', 'env', 'envbig', 'zero', 'envfrac'},
                  Roles={'input', 'output'}, PathBys={'position', 'keyword'},
                  Cassettes={'memory', 'file', 's3'}, ReplayPaths={'same', 'other'},
                  Twices={False, True},
                  Pres={'absent', 'sameSizeOtherBytes'} if quick else {'absent', 'sameSizeOtherBytes', 'shorter', 'identical'})
    with tlc.Scratch() as s:
        mc.write_mc(s, 'FileHandler', 'MC_C20', consts, invariants=INVS)
        r, g = tlc.dump_graph(s, 'MC_C20', 'MC_C20.cfg')
        rep.add_tlc('FileHandler (all configurations)', r, obligations=INVS)
        if r.violation:
            rep.violation({'summary': 'TLC: %s violated on FileHandler' % r.violation, 'signature': 'tlc:%s' % r.violation})
            return
        finals = [g.states[n] for n in g.states if g.states[n]['phase'] == 'done']
    rnd = random.Random(seed)
    if quick:
        # the 3 MiB configurations move megabytes per trip: in the quick tier only on the in-memory cassette, one content class
        chosen = [st for st in finals if st['cfg']['limitSrc'] != 'envbig' or
                  (st['cfg']['cassette'] == 'memory' and st['cfg']['content'] in ('binary', 'emptyBytes', 'placeholderText'))]
        rep.exhaustive = False
    else:
        chosen = finals
        rep.exhaustive = True
    import multiprocessing as mp
    ctx = mp.get_context('fork')
    tasks = [(dict(st['cfg']), dict((k, st[k]) for k in ('recorded', 'restoredAt', 'restored', 'wasRead')), seed * 31 + i)
             for i, st in enumerate(chosen)]
    with ctx.Pool(tlc.NCPU) as pool:
        results = pool.map(_one, tasks, chunksize=4)
    for (cfg, st, sd), bad in zip(tasks, results):
        rep.traces += 1
        rep.evaluations += 1
        rep.note_behaviour(sorted(cfg.items()), True)
        if len(rep.samples) < 3:
            rep.sample({'configuration': cfg, 'model': st})
        if bad:
            rep.violation({'summary': '%s: expected %s, observed %s in configuration %s' % (bad[0][0], bad[0][1], bad[0][2], cfg),
                           'signature': None, 'all': [list(map(str, b)) for b in bad]},
                          replay={'kind': 'trip', 'cfg': cfg, 'model': st, 'seed': sd})
    rep.extra['configurations_in_model'] = len(finals)
    rep.extra['configurations_run'] = len(chosen)


def _one(task):
    import logging
    logging.disable(logging.CRITICAL)
    cfg, st, sd = task
    if cfg.get('twice'):
        res = trip_twice(cfg, sd)
        return [('trip with two files at one path failed', 'each interception keeps its own bytes', res['errors'][0][-400:])] \
            if res['errors'] else []
    return judge(cfg, st, trip(cfg, sd))


def replay(rep, body):
    rp = body['replay']
    bad = _one((rp['cfg'], rp['model'], rp['seed']))
    for b in bad:
        print('VIOLATING', b)
    return not bad
