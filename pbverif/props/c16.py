"""C16 S3 time-window lookup is exact."""
import datetime
import random

from ..simplecheck import dump_states, run_tlc_only
from ..fake_boto3 import make_s3_cassette, reopen_s3_cassette

BASE = datetime.datetime(2021, 2, 26, 0, 0, 0)   # spans a month boundary (Feb 28 -> Mar 1)


class _Clock(object):
    now = BASE


class FakeDT(datetime.datetime):
    @classmethod
    def today(cls):
        return _Clock.now

    @classmethod
    def utcnow(cls):
        return _Clock.now

    @classmethod
    def now(cls, tz=None):
        return _Clock.now


class Bucket(object):
    """One bucket filled in time order: recordings saved at chosen instants, lookups at chosen 'now'."""

    def __init__(self):
        import playback.tape_cassettes.s3.s3_tape_cassette as s3m
        self.s3m = s3m
        self.old = s3m.datetime
        s3m.datetime = FakeDT
        # uuid1().hex starts with time_low, which wraps every ~7 minutes: inside a day folder key order is not save
        # order.  The harness saves within milliseconds, so it makes that explicit with seeded random ids.
        self.old_uuid = s3m.uuid
        rnd = random.Random(16)

        class _U(object):
            def __init__(self):
                self.hex = '%032x' % rnd.getrandbits(128)

        class _FakeUuid(object):
            @staticmethod
            def uuid1():
                return _U()
        s3m.uuid = _FakeUuid
        self.writer = make_s3_cassette(key_prefix='tw', read_only=False)
        self.reader = reopen_s3_cassette(self.writer, read_only=True)
        self.ids = {}  # id -> instant

    def close(self):
        self.s3m.datetime = self.old
        self.s3m.uuid = self.old_uuid

    def save_at(self, instant):
        _Clock.now = instant
        self.writer.verif_store.now = instant
        r = self.writer.create_new_recording('Cat')
        r.set_data('k', 1)
        r.add_metadata({'m': 1})
        self.writer.save_recording(r)
        self.ids[r.id] = instant

    def lookup(self, now, start, end, **kw):
        _Clock.now = now
        self.writer.verif_store.now = now
        try:
            got = list(self.reader.iter_recording_ids('Cat', start_date=start, end_date=end, **kw))
        except Exception as ex:  # noqa
            return 'raised %r' % (ex,)
        return got


def _hours(h):
    return BASE + datetime.timedelta(hours=h)


def run(rep, tier, seed):
    rep.rule = ('states of spec/TimeWindow.tla = (mode in {start+end, start only (end = now), end only, none}, start, end, '
                'now) on an hour grid spanning several days (6-hour grid in the quick tier, 1-hour grid in the thorough '
                'tier), recordings saved at every grid instant <= now; each state is one lookup on the real S3TapeCassette '
                'over the fake bucket with controlled datetime and bucket clock, the returned set must equal the window '
                'exactly and be duplicate-free; plus random minute-level windows, and pairs of lookups with different windows whose lazy results are consumed interleaved. non-trivial = window with a start whose '
                'end (or now) is on a later day; distinct = state')
    rep.assumptions = ['process clock in UTC', 'recordings are created and saved at the same instant',
                       'recordings are not in the future', 'fake bucket: last_modified = time of the put']
    run_tlc_only(rep, 'TimeWindow', 'TimeWindow_pinned.cfg', name='pinned folder rule ((end-start).days+1): counterexample',
                 expect='NoneMissed')
    if tier == 'quick':
        g, r = dump_states(rep, 'TimeWindow', 'TimeWindow_q.cfg', name='6-hour grid, 16 points: Exact')
        if g is None:
            return
        states = [g.states[n] for n in g.states]
        rep.exhaustive = True
    else:
        run_tlc_only(rep, 'TimeWindow', 'TimeWindow_t.cfg', name='1-hour grid, 96 points: Exact', timeout=3000)
        g, r = dump_states(rep, 'TimeWindow', 'TimeWindow_q.cfg', name='6-hour grid, 16 points: Exact')
        states = [g.states[n] for n in g.states]
        # the hour grid is enumerated here (dumping 9e5 set-valued states is pointless): same state space, oracle = window
        for mode in ('start_end', 'start', 'end', 'none'):
            for s in (range(96) if mode in ('start_end', 'start') else [0]):
                for e in (range(96) if mode in ('start_end', 'end') else [0]):
                    for now in (23, 47, 50, 95):
                        states.append({'mode': mode, 's': s, 'e': e, 'now': now, 'exact': None, 'hour': True})
    grid_check(rep, states)
    minute_level(rep, seed, 300 if tier == 'quick' else 20000)


def grid_check(rep, states):
    b = Bucket()
    try:
        states = sorted(states, key=lambda st: st['now'])
        saved = set()
        for st in states:
            step = 1 if st.get('hour') else 6
            for t in range(0, st['now'] + 1, step):
                if t not in saved:
                    # keep the bucket in time order
                    saved.add(t)
            # (recordings are added lazily below)
        done = set()
        for st in states:
            step = 1 if st.get('hour') else 6
            for t in sorted(x for x in range(0, st['now'] + 1) if (x % step == 0) and x not in done):
                b.save_at(_hours(t))
                done.add(t)
            mode = st['mode']
            start = _hours(st['s']) if mode in ('start_end', 'start') else None
            end = _hours(st['e']) if mode in ('start_end', 'end') else None
            got = b.lookup(_hours(st['now']), start, end)
            exp = set(i for i, inst in b.ids.items()
                      if inst <= _hours(st['now']) and (start is None or start <= inst) and (end is None or inst <= end))
            rep.evaluations += 1
            rep.traces += 1
            nt = mode in ('start_end', 'start') and (st['e'] if mode == 'start_end' else st['now']) // 24 > st['s'] // 24
            rep.note_behaviour((mode, st['s'], st['e'], st['now']), nt)
            if len(rep.samples) < 3 and nt:
                rep.sample({'mode': mode, 'start_h': st['s'], 'end_h': st['e'], 'now_h': st['now'], 'expected_found': len(exp)})
            # the same window with a limit / random order / a metadata filter: a duplicate-free subset of the window of
            # exactly min(limit, matches) ids (several day folders are read round-robin, each with its own copy of the limit)
            if nt and (st['s'] + st['e'] + st['now']) % 3 == 0:
                for kw in ({'limit': 2}, {'limit': 3, 'random_results': True}, {'metadata': {'m': 1}, 'limit': 1},
                           {'metadata': {'m': [2, None]}}):
                    g2 = b.lookup(_hours(st['now']), start, end, **kw)
                    rep.evaluations += 1
                    want = exp if kw.get('metadata', {}).get('m', 1) == 1 else set()
                    n = min(kw.get('limit', 10 ** 6), len(want))
                    if isinstance(g2, str) or not set(g2) <= want or len(set(g2)) != n or len(g2) != len(set(g2)):
                        rep.violation({'summary': 'window mode=%s start=%s end=%s now=%s with %s: got %s, expected %d of the %d in the window'
                                                  % (mode, start, end, _hours(st['now']), kw,
                                                     g2 if isinstance(g2, str) else '%d ids (%d distinct, %d outside)' % (len(g2), len(set(g2)), len(set(g2) - want)),
                                                     n, len(want)), 'signature': None},
                                      replay={'kind': 'grid', 'state': {k: st[k] for k in ('mode', 's', 'e', 'now')}, 'hour': bool(st.get('hour'))})
            if isinstance(got, str) or set(got) != exp or len(got) != len(set(got)):
                gs = set(got) if not isinstance(got, str) else set()
                rep.violation({'summary': 'window mode=%s start=%s end=%s now=%s: missed %s, outside %s, duplicates %s%s'
                                          % (mode, start, end, _hours(st['now']),
                                             sorted(str(b.ids[i]) for i in exp - gs)[:4],
                                             sorted(str(b.ids[i]) for i in gs - exp)[:4],
                                             (len(got) - len(gs)) if not isinstance(got, str) else 0,
                                             (' ' + got[:200]) if isinstance(got, str) else ''),
                               'signature': None},
                              replay={'kind': 'grid', 'state': {k: st[k] for k in ('mode', 's', 'e', 'now')},
                                      'hour': bool(st.get('hour'))})
    finally:
        b.close()


def minute_level(rep, seed, n):
    rnd = random.Random(seed + 16)
    b = Bucket()
    try:
        span = 4 * 24 * 60
        instants = sorted(set(rnd.randrange(span) for _ in range(60)) | {0, 24 * 60, 24 * 60 - 1, 48 * 60, 48 * 60 + 1})
        for m in instants:
            b.save_at(BASE + datetime.timedelta(minutes=m))
        last = BASE + datetime.timedelta(minutes=span + 10)
        for i in range(n):
            mode = rnd.choice(['start_end', 'start', 'end', 'none'])
            s = BASE + datetime.timedelta(minutes=rnd.choice([rnd.randrange(span), rnd.randrange(5) * 24 * 60]))
            e = BASE + datetime.timedelta(minutes=rnd.choice([rnd.randrange(span), rnd.randrange(5) * 24 * 60]))
            start = s if mode in ('start_end', 'start') else None
            end = e if mode in ('start_end', 'end') else None
            got = b.lookup(last, start, end)
            exp = set(k for k, inst in b.ids.items() if (start is None or start <= inst) and (end is None or inst <= end))
            rep.evaluations += 1
            if isinstance(got, str) or set(got) != exp or len(got) != len(set(got)):
                gs = set(got) if not isinstance(got, str) else set()
                rep.violation({'summary': 'minute-level window mode=%s start=%s end=%s: missed %d, outside %d %s'
                                          % (mode, start, end, len(exp - gs), len(gs - exp), got[:150] if isinstance(got, str) else ''),
                               'signature': None}, replay={'kind': 'minute', 'seed': seed, 'index': i})
        rep.extra['minute_level_windows'] = n
        # two lookups with different windows on one cassette, their (lazy) results consumed interleaved: each is exact for
        # its own window
        m = 0
        for i in range(max(20, n // 20)):
            wins = []
            for _w in range(2):
                s = BASE + datetime.timedelta(minutes=rnd.randrange(span))
                e = s + datetime.timedelta(minutes=rnd.randrange(1, 3 * 24 * 60))
                wins.append((s, e))
            _Clock.now = last
            b.writer.verif_store.now = last
            try:
                it_a = iter(b.reader.iter_recording_ids('Cat', start_date=wins[0][0], end_date=wins[0][1]))
                got_a = []
                try:
                    got_a.append(next(it_a))
                except StopIteration:
                    pass
                got_b = list(b.reader.iter_recording_ids('Cat', start_date=wins[1][0], end_date=wins[1][1]))
                got_a += list(it_a)
            except Exception as ex:  # noqa
                rep.violation({'summary': 'interleaved lookups raised %r' % (ex,), 'signature': None}, replay={'kind': 'minute', 'seed': seed, 'index': -1})
                break
            rep.evaluations += 2
            m += 1
            for (s, e), got, which in ((wins[0], got_a, 'first (started, then continued after the other ran)'), (wins[1], got_b, 'second')):
                exp = set(k for k, inst in b.ids.items() if s <= inst <= e)
                if set(got) != exp or len(got) != len(set(got)):
                    rep.violation({'summary': 'interleaved lookups: the %s lookup, window %s .. %s: missed %d, outside %d, duplicates %d'
                                              % (which, s, e, len(exp - set(got)), len(set(got) - exp), len(got) - len(set(got))),
                                   'signature': None}, replay={'kind': 'minute', 'seed': seed, 'index': -1})
        rep.extra['interleaved_lookup_pairs'] = m
    finally:
        b.close()


def replay(rep, body):
    rp = body.get('replay', {})
    if rp.get('kind') == 'grid':
        from ..evidence import Report
        r2 = Report('C16', 'quick', 0)
        st = dict(rp['state'])
        st['hour'] = rp.get('hour')
        grid_check(r2, [st])
        for v in r2.violations:
            print('VIOLATING', v['what']['summary'])
        return not r2.violations
    from ..evidence import rerun_and_match
    return rerun_and_match(run, body)
