"""C03 Captured outputs are exactly what the executing code sent."""
from ..recprops import RecorderCheck, consts, K, opts, replay_file

CATS = {'pbout', 'recout', 'store_keys', 'store_values'}
INVS = ['TypeOK', 'OutputsExact', 'OneEntryPerCall', 'SameOutputs', 'IdleClean']
EDITS = ['sent', 'drop', 'add', 'swap', 'result', 'raise', 'ctl']


def nontrivial(beh):
    return any(s['ev']['kind'] == 'playstart' and s['ev']['mode'] == 'edit' for s in beh) or \
        len([1 for s in beh if s['ev']['kind'] == 'pout']) >= 10


def gen_consts(steps, **over):
    c = dict(InCalls=[('ia1', 1), ('ia2', 1)], OutAliases=['oa1', 'oa2'], Vals=['v1', 'v2'], Excs=['E1'],
             OutResults=[('val', 'v1'), ('exc', 'E1')], Ends=['ret', 'raise'], Classes=[K('K1')],
             MaxSteps=steps, MaxRuns=2, MaxRecs=1, Modes=['same', 'edit'], EditKinds=EDITS, Ctl=['subop'])
    c.update(over)
    return consts(**c)


def deep_consts(n):
    return consts(InCalls=[], OutAliases=['oa1'], Vals=['v1', 'v2'], SentVals=['v1'], OutResults=[('val', 'v1')], Ends=['ret'],
                  Classes=[K('K1')], MaxSteps=n, MaxRuns=2, MaxRecs=1, Modes=['same', 'edit'],
                  EditKinds=['sent', 'drop'])


def run(rep, tier, seed):
    rep.rule = ('behaviours = complete paths of the TLC state graph of Recorder.tla: recorded program P, then a replay '
                'of P or of exactly one behavioural edit of P (changed sent value, dropped / added / swapped output '
                'call, changed result, raise instead of return); oracle = Playback.recorded_outputs / playback_outputs '
                'as key->payload maps against the model, whose invariant OutputsExact states that they differ exactly '
                'at the entries affected according to the per-alias sequences of sent payloads. deep configs drive one '
                'alias past ordinal 10. non-trivial = an edited replay, or >= 10 output calls; distinct = event '
                'sequence')
    rep.assumptions = ['recorded_outputs / playback_outputs are compared as maps (list order is not part of the statement)']
    chk = RecorderCheck(rep, tier, seed, CATS, nontrivial)
    try:
        if tier == 'quick':
            chk.check('chk', gen_consts(3), invariants=INVS)
            chk.generate('gen2', gen_consts(2), cassettes=('memory', 'file'), n_conc=1, sample=2500, cap=4000)
            chk.generate('gen3', gen_consts(3, InCalls=[], OutAliases=['oa1'], OutResults=[('val', 'v1')], Ends=['ret']),
                         cassettes=('memory',), n_conc=1, sample=3000, cap=5000)
            chk.generate('afterfail', gen_consts(1, MaxPSteps=2, MaxRuns=3, Modes=['free'], InOpts=[opts()],
                                                 OutOpts=[opts(failMissing=False)], InCalls=[('ia1', 1), ('ia1', 2)], OutAliases=['oa1'],
                                                 Vals=['v1'], OutResults=[('val', 'v1')], Ends=['ret']),
                         cassettes=('memory',), n_conc=1, sample=2500, cap=4000)
            chk.generate('deep11', deep_consts(11), cassettes=('memory', 's3'), n_conc=1, sample=300, cap=500,
                         invariants=['TypeOK'], max_states=600000)
        else:
            chk.check('chk', gen_consts(4), invariants=INVS, timeout=3000)
            chk.generate('gen2', gen_consts(2), cassettes=('memory', 'file', 's3'), n_conc=4, all_paths=True, cap=200000)
            chk.generate('gen3', gen_consts(3), cassettes=('memory',), n_conc=2, sample=80000, cap=120000,
                         max_states=800000)
            chk.generate('deep12', deep_consts(12), cassettes=('memory', 'file', 's3'), n_conc=1, sample=5000, cap=8000,
                         invariants=['TypeOK'], max_states=800000)
    finally:
        chk.close()


def replay(rep, body):
    return replay_file(rep, body, CATS)
