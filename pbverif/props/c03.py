"""C03 Captured outputs are exactly what the executing code sent."""
from ..recprops import RecorderCheck, consts, K, opts, replay_file

CATS = {'pbout', 'recout', 'store_keys', 'store_values'}
INVS = ['TypeOK', 'OutputsExact', 'OneEntryPerCall', 'SameOutputs', 'IdleClean']
EDITS = ['sent', 'drop', 'add', 'swap', 'result', 'raise', 'ctl']


def nontrivial(beh):
    return any(s['ev']['kind'] == 'playstart' and s['ev']['mode'] == 'edit' for s in beh) or \
        len([1 for s in beh if s['ev']['kind'] == 'pout']) >= 10


def gen_consts(steps, **over):
    c = dict(InCalls=[('ia1', 1), ('ia2', 1)], OutAliases=['oa1', 'oa2'], Vals=['v1', 'v2'], Excs=['E1'],
             OutResults=[('val', 'v1'), ('exc', 'E1')], Ends=['ret', 'raise'], Classes=[K('K1')],
             MaxSteps=steps, MaxRuns=2, MaxRecs=1, Modes=['same', 'edit'], EditKinds=EDITS, Ctl=['subop'])
    c.update(over)
    return consts(**c)


def afterintr_consts():
    """a recorded run that is cut short inside an intercepted call (survived by the service), then another recorded run on
    the same recorder and its replay: the later run's output entries are complete"""
    return gen_consts(2, MaxRuns=3, MaxRecs=2, Modes=['same'], EditKinds=[], OutResults=[('val', 'v1'), ('int', 'BI')],
                      Bodies=['plain', 'interrupt'], Ends=['ret', 'interrupt'], InCalls=[('ia1', 1)], OutAliases=['oa1'],
                      Vals=['v1'], Ctl=[])


def afterdiscard_consts():
    """a run that sends outputs and whose recording is then discarded (explicitly, or by a failing output data handler),
    then another recorded run on the same recorder and its replay: its entries are numbered from 1 again"""
    return gen_consts(2, MaxRuns=3, MaxRecs=2, Modes=['same'], EditKinds=[], OutResults=[('val', 'v1')], Ends=['ret'],
                      InCalls=[('ia1', 1)], OutAliases=['oa1'], Vals=['v1'], Ctl=['discard'], OutFaults=['none', 'prepFail'])


def deep_consts(n):
    return consts(InCalls=[], OutAliases=['oa1'], Vals=['v1', 'v2'], SentVals=['v1'], OutResults=[('val', 'v1')], Ends=['ret'],
                  Classes=[K('K1')], MaxSteps=n, MaxRuns=2, MaxRecs=1, Modes=['same', 'edit'],
                  EditKinds=['sent', 'drop'])


def run(rep, tier, seed):
    rep.rule = ('behaviours = complete paths of the TLC state graph of Recorder.tla: recorded program P, then a replay '
                'of P or of exactly one behavioural edit of P (changed sent value, dropped / added / swapped output '
                'call, changed result, raise instead of return); oracle = Playback.recorded_outputs / playback_outputs '
                'as key->payload maps against the model, whose invariant OutputsExact states that they differ exactly '
                'at the entries affected according to the per-alias sequences of sent payloads. deep configs drive one '
                'alias past ordinal 10; histories with an interrupted or a discarded run before the recorded one. non-trivial = an '
                'edited replay, or >= 10 output calls; distinct = event '
                'sequence')
    rep.assumptions = ['recorded_outputs / playback_outputs are compared as maps (list order is not part of the statement)']
    chk = RecorderCheck(rep, tier, seed, CATS, nontrivial)
    try:
        if tier == 'quick':
            chk.check('chk', gen_consts(3), invariants=INVS)
            chk.generate('gen2', gen_consts(2), cassettes=('memory', 'file'), n_conc=1, sample=2500, cap=4000)
            chk.generate('gen3', gen_consts(3, InCalls=[], OutAliases=['oa1'], OutResults=[('val', 'v1')], Ends=['ret']),
                         cassettes=('memory',), n_conc=1, sample=3000, cap=5000)
            chk.generate('afterfail', gen_consts(1, MaxPSteps=2, MaxRuns=3, Modes=['free'], InOpts=[opts()],
                                                 OutOpts=[opts(failMissing=False)], InCalls=[('ia1', 1), ('ia1', 2)], OutAliases=['oa1'],
                                                 Vals=['v1'], OutResults=[('val', 'v1')], Ends=['ret']),
                         cassettes=('memory',), n_conc=1, sample=2500, cap=4000)
            chk.generate('deep11', deep_consts(11), cassettes=('memory', 's3'), n_conc=1, sample=300, cap=500,
                         invariants=['TypeOK'], max_states=600000)
            chk.generate('afterintr', afterintr_consts(), cassettes=('memory',), n_conc=1, sample=2000, cap=4000)
            chk.generate('afterdiscard', afterdiscard_consts(), cassettes=('memory',), n_conc=1, sample=2000, cap=4000)
        else:
            noctl = [e for e in EDITS if e != 'ctl']
            chk.check('chk', gen_consts(3), invariants=INVS, timeout=3000)
            chk.check('chk4', gen_consts(4, Ctl=[], EditKinds=noctl), invariants=INVS, timeout=3000)
            chk.generate('gen2', gen_consts(2), cassettes=('memory', 'file', 's3'), n_conc=4, all_paths=True, cap=200000)
            chk.generate('gen3', gen_consts(3, Ctl=[], EditKinds=noctl), cassettes=('memory',), n_conc=2, sample=80000, cap=120000,
                         max_states=800000)
            chk.generate('gen3ctl', gen_consts(3, InCalls=[('ia1', 1)], Vals=['v1']),
                         cassettes=('memory', 'file'), n_conc=1, sample=40000, cap=60000, max_states=800000)
            chk.generate('afterintr', afterintr_consts(), cassettes=('memory', 'file'), n_conc=1, all_paths=True, cap=100000)
            chk.generate('afterdiscard', afterdiscard_consts(), cassettes=('memory', 'file'), n_conc=1, sample=40000, cap=60000,
                         max_states=800000)
            chk.generate('deep12', deep_consts(12), cassettes=('memory', 'file', 's3'), n_conc=1, sample=5000, cap=8000,
                         invariants=['TypeOK'], max_states=800000)
    finally:
        chk.close()
    file_handler_outputs(rep, seed)


def file_handler_outputs(rep, seed):
    """Outputs with the file data handler: the captured entry carries the bytes the file had when the call was made -
    recorded run, replay of the same program, and replays whose code writes other bytes (same size, same path, same
    modification time) at the first / the second call: the difference shows at exactly that entry."""
    import logging
    import os
    import shutil
    import tempfile
    from playback.interception.files.output_file_interception import OutputInterceptionFileDataHandler
    from playback.tape_recorder import TapeRecorder
    from playback.tape_cassettes.in_memory.in_memory_tape_cassette import InMemoryTapeCassette
    import pbverif.opclasses as oc
    logging.disable(logging.CRITICAL)
    tmp = tempfile.mkdtemp(prefix='pbverif-c03-')
    try:
        for same_path in (True, False):
            cassette = InMemoryTapeCassette()
            tr = TapeRecorder(cassette)
            tr.enable_recording()
            handler = OutputInterceptionFileDataHandler(0, 'src', 1)
            plan = {'contents': [b'AAAA-first-file', b'BBBB-other-file']}

            class Op(object):
                @tr.operation()
                def execute(self):
                    for i, data in enumerate(plan['contents']):
                        p = os.path.join(tmp, 'export.bin' if same_path else 'export-%d.bin' % i)
                        with open(p, 'wb') as f:
                            f.write(data)
                        os.utime(p, (1600000000, 1600000000))
                        self.upload(p)
                    return len(plan['contents'])

                @tr.intercept_output('upload', data_handler=handler)
                def upload(self, src):
                    return 'stored'
            Op.__module__ = oc.__name__
            Op.__qualname__ = Op.__name__ = 'FileOutOp_%d' % (id(Op) % 1000003)
            setattr(oc, Op.__name__, Op)
            Op().execute()
            rid = cassette.get_last_recording_id()
            recorded = list(plan['contents'])
            for edit in (None, 0, 1):
                sent = list(recorded)
                if edit is not None:
                    sent[edit] = bytes(bytearray(b ^ 0x21 for b in bytearray(sent[edit])))   # same size, other bytes
                plan['contents'] = sent
                pb = tr.play(rid, lambda recording: Op().execute())

                def contents(outputs):
                    outs = sorted((o for o in outputs if 'upload' in o.key and o.key.endswith('.output')), key=lambda o: o.key)
                    return [handler.restore_output_from_recording(o.value).file_content for o in outs]
                got_rec, got_pb = contents(pb.recorded_outputs), contents(pb.playback_outputs)
                rep.evaluations += 1
                if got_rec != recorded or got_pb != sent:
                    rep.violation({'summary': 'file outputs (%s path, edit at call %s): recorded entries %r (expected %r), replayed '
                                              'entries %r (the replayed code sent %r)'
                                              % ('one' if same_path else 'two', edit, got_rec, recorded, got_pb, sent),
                                   'signature': None}, replay={'kind': 'fileout', 'seed': seed})
            plan['contents'] = recorded
    finally:
        shutil.rmtree(tmp, ignore_errors=True)


def replay(rep, body):
    if body.get('replay', {}).get('kind') == 'fileout':
        n0 = len(rep.violations)
        file_handler_outputs(rep, body['replay'].get('seed', 0))
        return len(rep.violations) == n0
    return replay_file(rep, body, CATS)
