"""C09 The recorder returns to idle; every run is independent of history."""
from ..recprops import RecorderCheck, consts, K, opts, replay_file

CATS = {'idle', 'history'}
INVS = ['TypeOK', 'IdleClean', 'FinalisedOnce', 'OneEntryPerCall']


def nontrivial(beh):
    runs = [s for s in beh if s['ev']['kind'] in ('enter', 'playstart', 'playunknown', 'playraise')]
    return len(runs) >= 2


def gen_consts(steps, runs, **over):
    c = dict(InCalls=[('ia1', 1), ('ia2', 2)], OutAliases=['oa1'], Vals=['v1'], Excs=['E1'],
             InFaults=['none', 'keyFail', 'prepFail'], OutFaults=['none'],
             Bodies=['plain', 'interrupt', 'forces', 'discards'], OutResults=[('val', 'v1'), ('int', 'BI')],
             Ctl=['discard', 'force', 'disable'], Ends=['ret', 'raise', 'interrupt'],
             Classes=[K('K1'), K('K2', rate='frac')], Draws=['low', 'high'], SaveFails=[False, True],
             MaxSteps=steps, MaxRuns=runs, MaxRecs=runs, Modes=['same', 'free'],
             InOpts=[opts()], OutOpts=[opts()], PlayFaults=['unknown', 'raise'])
    c.update(over)
    return consts(**c)


def outdiscard_consts(runs):
    """a run that sends intercepted outputs and is then discarded (explicitly, or by a failing output data handler),
    followed by runs that use the same output alias"""
    return gen_consts(2, runs, InCalls=[('ia1', 1)], OutFaults=['none', 'prepFail'], Bodies=['plain'], Ctl=['discard'],
                      Classes=[K('K1')], Draws=['low'], SaveFails=[False], Ends=['ret'], Modes=['same'], PlayFaults=[],
                      InFaults=['none'])


def lost_consts(runs):
    """a run whose finalisation is itself interrupted (BaseException of the post-operation metadata extractor: the
    recording is neither saved nor aborted), followed by further runs"""
    return gen_consts(1, runs, InCalls=[('ia1', 1)], InFaults=['none'], Bodies=['plain', 'forces'], Ctl=['force'],
                      Classes=[K('K1'), K('K2', rate='frac'), K('K0', rate='zero')], SaveFails=[False], Ends=['ret', 'raise'],
                      Modes=['same'], PlayFaults=[], Extractors=['none', 'interrupts'], OutResults=[('val', 'v1')])


def run(rep, tier, seed):
    rep.rule = ('behaviours = complete paths of the TLC state graph of Recorder.tla with histories of 2-3 runs on one '
                'recorder (successful, raising, interrupted, discarded, sampled out, forced, failing save, finalisation '
                'interrupted inside the metadata extractor, replay of a '
                'missing id, replay failing with a missing key, replay whose playback function raises) - every run '
                'after the first is executed twice: on the used recorder and on a fresh recorder over the same '
                'cassette content, and everything observable (what each call saw, bodies run, cassette calls, stored '
                'recording, decision, playback outputs, per-step public state) must be equal; after every run the '
                'public state must be idle. non-trivial = history of >= 2 runs; distinct = event sequence')
    rep.assumptions = ['probes run with scripted sampling draws, so the (deliberately history-dependent) random '
                       'stream is not part of the comparison', 'one operation at a time per recorder']
    chk = RecorderCheck(rep, tier, seed, CATS, nontrivial)
    chk.driver_opts = {'shadow': True}
    try:
        if tier == 'quick':
            chk.check('chk', gen_consts(2, 2), invariants=INVS)
            chk.generate('gen', gen_consts(1, 2), cassettes=('memory',), n_conc=1, sample=12000, cap=18000)
            chk.generate('failthen', gen_consts(1, 3, MaxPSteps=2, InCalls=[('ia1', 1), ('ia1', 2)], InFaults=['none'],
                                                Bodies=['plain'], Ctl=[], Classes=[K('K1')], SaveFails=[False],
                                                Ends=['ret'], Modes=['free'], PlayFaults=[], Draws=['low'],
                                                OutResults=[('val', 'v1')]),
                         cassettes=('memory',), n_conc=1, sample=2500, cap=4000)
            chk.generate('gen3runs', gen_consts(1, 3, InCalls=[('ia2', 2)], InFaults=['none', 'prepFail'],
                                                Bodies=['plain', 'interrupt', 'forces'], Ctl=['discard'],
                                                Classes=[K('K2', rate='frac')], SaveFails=[False], Ends=['ret'],
                                                Modes=['free'], PlayFaults=['raise']),
                         cassettes=('memory', 'file'), n_conc=1, sample=2500, cap=4000)
            chk.generate('outdiscard', outdiscard_consts(2), cassettes=('memory',), n_conc=1, all_paths=True, cap=20000)
            chk.generate('lostthen', lost_consts(2), cassettes=('memory',), n_conc=1, all_paths=True, cap=20000)
        else:
            chk.generate('lostthen', lost_consts(3), cassettes=('memory', 'file'), n_conc=1, sample=40000, cap=60000, max_states=800000)
            chk.generate('outdiscard', outdiscard_consts(3), cassettes=('memory', 'file'), n_conc=1, all_paths=True, cap=150000)
            chk.check('chk', gen_consts(2, 2), invariants=INVS, timeout=3000)
            chk.check('chk3runs', gen_consts(1, 3), invariants=INVS, timeout=3000)
            chk.generate('gen', gen_consts(1, 2), cassettes=('memory', 'file', 's3'), n_conc=2, all_paths=True, cap=150000)
            chk.generate('gen2', gen_consts(2, 2), cassettes=('memory',), n_conc=1, sample=60000, cap=90000,
                         max_states=800000)
            chk.generate('gen3runs', gen_consts(1, 3, SaveFails=[False]), cassettes=('memory', 'file'), n_conc=1,
                         sample=60000, cap=90000, max_states=800000)
    finally:
        chk.close()


def replay(rep, body):
    return replay_file(rep, body, CATS, shadow=True)
