"""C08 Every recording gets exactly one, correctly attributed verdict (and C13's engine: see c13.py)."""
import multiprocessing as mp
import random

from .. import mc, tlc, eqbind
from ..tlaval import to_json

ALL_BEHS = ['equal', 'different', 'bare', 'playerRaises', 'extractorRaises', 'comparatorRaises', 'dataRaises', 'exits', 'hangs', 'late']
EXTRA_BEHS = ['unreadable', 'idleExit', 'reportRaises']
PROC_BEHS = {'exits', 'hangs', 'late', 'unreadable', 'idleExit'}
INVS = ['Attribution', 'OneEach', 'RecycleBound', 'OneWorker']


def scenarios(rep, s, name, consts, cap, rnd, liveness=True):
    """terminal states of the TLC graph = scenarios (behaviour per recording, stop, who answered late, expected out)"""
    mod = 'MC_%s_%s' % (rep.prop, name)
    mc.write_mc(s, 'Equalizer', mod, consts, invariants=INVS, properties=['Terminates', 'NoLeak'] if liveness else [], spec='Spec')
    r, g = tlc.dump_graph(s, mod, mod + '.cfg', max_states=1500000, timeout=3000)
    rep.add_tlc(name, r, obligations=INVS + (['Terminates', 'NoLeak (liveness under weak fairness)'] if liveness else []))
    if r.violation:
        rep.violation({'summary': 'TLC: %s violated on Equalizer config %s' % (r.violation, name), 'signature': 'tlc:%s' % r.violation})
        return []
    terms = g.terminals()
    out = {}
    for n in terms:
        st = g.states[n]
        if st['pc'] != 'done':
            continue
        key = (tuple(st['beh']), st['stop'], tuple(sorted(st['lateput'])))
        out[key] = {'beh': list(st['beh']), 'stop': st['stop'], 'late': sorted(st['lateput']), 'orphans': sorted(st['orphans']),
                    'out': [dict(o) for o in st['out']], 'rate': consts['Rate']}
    sc = list(out.values())
    rnd.shuffle(sc)
    rep.extra.setdefault('generating', []).append({'config': name, 'graph_states': len(g.states), 'scenarios': len(sc),
                                                   'replayed': min(len(sc), cap)})
    return sc[:cap]


def _run(task):
    import logging
    logging.disable(logging.CRITICAL)
    sc, keep, abandon = task
    late_wins = dict((k, True) for k in sc['late'])
    res = eqbind.run_dedicated(sc['beh'], sc['rate'], sc['stop'], late_wins, keep, abandon=abandon)
    log = res.pop('log', None) or []
    res['implog'] = eqbind.impl_events(log, res['out']) if not res['violations'] else None
    inproc = None
    if not (set(sc['beh']) & PROC_BEHS) and sc['stop'] >= len(sc['beh']):
        inproc = eqbind.run_inprocess(sc['beh'], keep)
        # ... and with the real TapeRecorder.play as the player (recordings made by the real recorder)
        res['inproc_real'] = eqbind.run_inprocess_real(sc['beh'], keep)
    return sc, keep, abandon, res, inproc


def judge_c08(sc, keep, res, inproc):
    bad = []
    exp = eqbind.expected_out(sc['out'], sc['beh'], keep)
    got = res['out']
    if len(got) != len(exp):
        bad.append('%d comparisons for %d consumed ids' % (len(got), len(exp)))
    for e, g in zip(exp, got):
        if g['id'] != e['id']:
            bad.append('comparison #%d is labelled with recording %d' % (e['id'], g['id']))
        if g['verdict'] != e['verdict']:
            bad.append('recording %d (%s): verdict %s, expected %s' % (e['id'], sc['beh'][e['id'] - 1], g['verdict'], e['verdict']))
        if g.get('kept') != e.get('kept'):
            bad.append('recording %d (%s): results kept in the comparison belong to %s, expected %s'
                       % (e['id'], sc['beh'][e['id'] - 1], g.get('kept'), e.get('kept')))
        if g['attached'] != e['attached']:
            bad.append('recording %d (%s): attached replay of recording %s, expected %s'
                       % (e['id'], sc['beh'][e['id'] - 1], g['attached'], e['attached']))
    if inproc is not None:
        iv = [o['verdict'] for o in inproc]
        dv = [o['verdict'] for o in got]
        if iv != dv:
            bad.append('in-process verdicts %s differ from dedicated-process verdicts %s' % (iv, dv))
        for e, g in zip(exp, inproc):
            if (g['id'], g['verdict'], g['attached']) != (e['id'], e['verdict'], e['attached']):
                bad.append('in-process: recording %d (%s) gave %s, expected %s' % (e['id'], sc['beh'][e['id'] - 1], g, e))
    real = res.get('inproc_real')
    if real is not None:
        if len(real) != len(exp):
            bad.append('in-process over the real recorder: %d comparisons for %d ids' % (len(real), len(exp)))
        for e, g in zip(exp, real):
            if (g['id'], g['verdict'], g['attached']) != (e['id'], e['verdict'], e['attached']) or not g['pure']:
                bad.append('in-process over the real recorder: recording %d (%s) gave %s, expected %s with a replay holding '
                           'only its own outputs' % (e['id'], sc['beh'][e['id'] - 1], g, e))
    return bad


def consts(n, behs, rate, stops, fresh=True):
    return dict(N=n, Behs=set(behs), Rate=rate, Stops=set(stops), FreshQueues=fresh)


def run(rep, tier, seed, judge=judge_c08, prop_filter=None, extra=None):
    rep.rule = ('scenarios = terminal states of the TLC state graph of spec/Equalizer.tla: a sequence of recordings, each with '
                'a behaviour (equal, different, bare status, player / extractor / comparator raises, worker exits, worker '
                'hangs past the time-out, worker answers just after the parent gave up - and whether that late answer '
                'reached the queue before the kill), recycle rate, consumer stopping early; every scenario is executed on '
                'the real Equalizer in dedicated-process mode (parent generator + the real _playback_process_target under '
                'the deterministic scheduler over fake multiprocessing / time / os.kill, with and without keeping results) '
                'and, when no process fault is involved, in-process; oracle = the comparison list of the model. non-trivial '
                '= scenario with at least one fault behaviour; distinct = (behaviours, stop, late answers, rate)')
    rep.assumptions = ['worker processes are threads over fake queues: fork\'s memory copy is approximated by pickling what '
                       'crosses the queues; players are pure', 'time passes only when no participant can move (urgency)',
                       'a worker that dies while idle (between two tasks) belongs to no recording: the recording that is handed '
                       'to it next is reported as "died" (modelled as observed: `orphans`), every other recording keeps its own verdict']
    rnd = random.Random(seed + 8)
    quick = tier == 'quick'
    with tlc.Scratch() as s:
        mod = 'MC_%s_pinned' % rep.prop
        mc.write_mc(s, 'Equalizer', mod, consts(3, ['equal', 'different', 'late'], 2, [3], fresh=False), invariants=INVS, spec='Spec')
        r = tlc.run_tlc(s, mod, mod + '.cfg')
        rep.add_tlc('pinned design (one queue pair for the whole run)', r)
        rep.extra['design_counterexample'] = {'variant': 'FreshQueues=FALSE', 'tlc_violation': r.violation,
                                              'trace_len': len(r.error_trace)}
        if r.violation != 'Attribution':
            raise tlc.TLCError('the pinned queue design should violate Attribution, got %r' % r.violation)
        sc = []
        if quick:
            sc += scenarios(rep, s, 'n4', consts(4, ['equal', 'different', 'playerRaises', 'exits', 'hangs', 'late'], 2, [4, 2]), 700, rnd)
            sc += scenarios(rep, s, 'n3all', consts(3, ALL_BEHS, 1, [3, 1]), 300, rnd)
            sc += scenarios(rep, s, 'n3r3', consts(3, ['equal', 'extractorRaises', 'exits', 'late'], 3, [3]), 150, rnd)
            # a worker that dies while idle, between two tasks: the next recording is reported as "died" (documented
            # deviation), the one after it is unaffected
            sc += scenarios(rep, s, 'n4idle', consts(4, ['equal', 'different', 'idleExit', 'late'], 2, [4]), 200, rnd)
            sc += scenarios(rep, s, 'n4idle3', consts(4, ['equal', 'idleExit', 'exits'], 3, [4, 2]), 100, rnd)
            # a failure the worker cannot even describe: it answers (False, text), lives on, the task counts
            sc += scenarios(rep, s, 'n4report', consts(4, ['equal', 'reportRaises', 'exits', 'late'], 2, [4]), 150, rnd)
        else:
            sc += scenarios(rep, s, 'n5', consts(5, ['equal', 'different', 'playerRaises', 'exits', 'hangs', 'late'], 2, [5, 3, 1]), 30000, rnd, liveness=False)
            sc += scenarios(rep, s, 'n4all', consts(4, ALL_BEHS, 2, [4, 2]), 20000, rnd)
            sc += scenarios(rep, s, 'n4r1', consts(4, ['equal', 'comparatorRaises', 'exits', 'hangs', 'late'], 1, [4, 1]), 3000, rnd)
            sc += scenarios(rep, s, 'n4r3', consts(4, ['equal', 'extractorRaises', 'exits', 'hangs', 'late'], 3, [4, 3]), 3000, rnd)
            sc += scenarios(rep, s, 'n5idle', consts(5, ['equal', 'different', 'idleExit', 'late', 'hangs'], 2, [5, 3]), 6000, rnd, liveness=False)
            sc += scenarios(rep, s, 'n4idle3', consts(4, ['equal', 'idleExit', 'exits', 'playerRaises'], 3, [4, 2]), 3000, rnd)
            sc += scenarios(rep, s, 'n4idle1', consts(4, ['equal', 'idleExit', 'late'], 1, [4]), 1000, rnd)
            sc += scenarios(rep, s, 'n5report', consts(5, ['equal', 'different', 'reportRaises', 'exits', 'late'], 2, [5, 3]), 4000, rnd, liveness=False)
            sc += scenarios(rep, s, 'n4report3', consts(4, ['equal', 'reportRaises', 'hangs', 'unreadable'], 3, [4]), 1000, rnd)
        for name, c, cap in (extra(tier) if extra else []):
            sc += scenarios(rep, s, name, c, cap, rnd)
    tasks = []
    impl = {}
    for k, x in enumerate(sc):
        tasks.append((x, bool(k % 2), 'close' if (k // 2) % 2 == 0 else 'drop'))
    ctx = mp.get_context('fork')
    with ctx.Pool(tlc.NCPU) as pool:
        for x, keep, abandon, res, inproc in pool.imap_unordered(_run, tasks, chunksize=8):
            rep.traces += 1
            rep.evaluations += 1 + (1 if inproc is not None else 0)
            rep.note_behaviour((tuple(x['beh']), x['stop'], tuple(x['late']), x['rate']),
                               bool(set(x['beh']) - {'equal', 'different', 'bare'}))
            if len(rep.samples) < 3 and x['late']:
                rep.sample({'scenario': x, 'observed': res['out']})
            if res.get('implog'):
                impl.setdefault((len(x['beh']), x['rate']), []).append(
                    {'beh': list(x['beh']), 'stop': x['stop'], 'events': res['implog']})
            bad = judge(x, keep, res, inproc)
            if bad:
                rep.violation({'summary': '%s | scenario beh=%s rate=%d stop=%d late=%s keep_results=%s'
                                          % (bad[0], x['beh'], x['rate'], x['stop'], x['late'], keep),
                               'signature': None, 'all': bad[:5]},
                              replay={'kind': 'equalizer', 'scenario': x, 'keep': keep, 'abandon': abandon})
    rep.exhaustive = False
    impl_level(rep, impl)
    # direction B: the repository's equalizer tests with *real* worker processes under the guarded parent-side hooks
    from .. import suitetrace
    events, tail = suitetrace.run_tests(['tests/studio/test_equalizer.py'])
    rep.extra['suite_run'] = tail
    suitetrace.validate(rep, 'tests/studio/test_equalizer.py (real processes)', 'EqualizerTrace', suitetrace.equalizer_traces(events))


def impl_level(rep, impl):
    """Implementation level: the scheduler's log of every run (multiprocessing boundary calls of the parent and the
    workers) must be a behaviour of Equalizer.tla itself (EqualizerImplTrace reuses its actions).  A rejection is model
    drift - reported in the evidence, not an alarm: a refactoring of the parent loop that keeps the property must not
    fail the check."""
    from .. import tracecheck
    st = rep.extra.setdefault('implementation_level_traces', {'validated': 0, 'accepted': 0, 'rejected_as_drift': 0})
    with tlc.Scratch() as s:
        for (n, rate), traces in sorted(impl.items()):
            # (validation time grows steeply with the number of recordings: silent steps branch)
            traces = traces[:600 if n <= 3 else 300 if n == 4 else 40]
            for i, t in enumerate(traces):
                t['id'] = i + 1
            name = 'MC_%s_impl_%d_%d' % (rep.prop, n, rate)
            mc.write_mc(s, 'EqualizerImplTrace', name,
                        consts(n, ALL_BEHS + EXTRA_BEHS, rate, list(range(1, n + 1))), invariants=['TraceInv'],
                        spec='TraceSpec', constraints=['Report'])
            try:
                r, acc, rej = tracecheck.validate(s, name, name + '.cfg', traces)
            except tlc.TLCError as ex:   # an invariant of the specification failed on a real execution: drift as well
                st['rejected_as_drift'] += len(traces)
                st.setdefault('tlc_errors', []).append(str(ex)[-400:])
                continue
            rep.add_tlc('EqualizerImplTrace (N=%d, rate=%d): %d scheduler logs against the actions of Equalizer.tla'
                        % (n, rate, len(traces)), r)
            rep.accepted += len(acc)
            st['validated'] += len(traces)
            st['accepted'] += len(acc)
            st['rejected_as_drift'] += len(rej)
            if rej and 'rejected_sample' not in st:
                k = tracecheck.longest_prefix(s, name, name + '.cfg', rej[0])
                st['rejected_sample'] = {'beh': rej[0]['beh'], 'stop': rej[0]['stop'], 'rate': rate, 'matched_prefix': k,
                                         'next_event': rej[0]['events'][k] if k < len(rej[0]['events']) else None,
                                         'events': rej[0]['events']}


def replay(rep, body, judge=judge_c08):
    rp = body['replay']
    if rp.get('kind') == 'suite-trace':
        from .. import suitetrace
        return suitetrace.replay_trace(body)
    x, keep, abandon, res, inproc = _run((rp['scenario'], rp['keep'], rp['abandon']))
    print('observed:', res['out'], 'violations:', res['violations'], 'served:', res['served'], 'waits:', res['waits'])
    bad = judge(x, keep, res, inproc)
    for b in bad:
        print('VIOLATING', b)
    return not bad
