"""C18 Recording metadata tells the truth about the run."""
from ..recprops import RecorderCheck, consts, K, replay_file

CATS = {'meta_class', 'meta_incomplete', 'meta_exc', 'meta_user', 'meta_duration', 'meta_time', 'default_lookup'}
INVS = ['TypeOK', 'MetaTruth', 'IdleClean', 'FinalisedOnce']


def nontrivial(beh):
    return any(s['ev']['kind'] == 'finalise' and s['ev']['decision'] == 'keep' and not s['ev']['saveFails'] for s in beh)


def gen_consts(steps, **over):
    c = dict(InCalls=[('ia1', 1), ('ia2', 1)], OutAliases=['oa1'], Vals=['v1'], Excs=['E1'],
             Bodies=['plain', 'interrupt'], OutResults=[('val', 'v1'), ('exc', 'E1'), ('int', 'BI')],
             Ends=['ret', 'raise', 'interrupt'], Classes=[K('K1'), K('K1c')],
             Extractors=['none', 'ok', 'raises', 'junk'], MaxSteps=steps, MaxRuns=2, MaxRecs=2, Ctl=['subop', 'disable', 'discard'])
    c.update(over)
    return consts(**c)


def afterplay_consts():
    """record, replay, record again (return / exception / interrupt) on one recorder: the metadata of the later recording
    describes the later run, whatever the replay left behind"""
    return gen_consts(1, MaxRuns=3, MaxRecs=2, Modes=['same'], Classes=[K('K1')], Extractors=['none', 'ok'],
                      InCalls=[('ia1', 1)])


def run(rep, tier, seed):
    rep.rule = ('behaviours = complete paths of the TLC state graph of Recorder.tla: programs x termination mode '
                '(return / ordinary exception / interrupt-style, at the operation level or inside an intercepted input '
                'or output body) x instance / class-level operation x extractor outcome (absent, ok, raises, returns '
                'half-valid junk), one and two runs of the same class; oracle = projection of get_metadata() of the '
                'fetched recording onto class, incomplete flag, exception flag, user metadata, duration (virtual clock: '
                'exactly the scripted time) and timestamp (parsable, inside the wall-clock window of the run). '
                'non-trivial = a recording was saved; distinct = event sequence')
    rep.assumptions = ['duration is checked against a virtual clock substituted for time.time in tape_recorder',
                       'the exception flag is only claimed for runs that were not cut short']
    chk = RecorderCheck(rep, tier, seed, CATS, nontrivial)
    chk.driver_opts = {'check_default_lookup': True, 'returned_exceptions': True}
    try:
        if tier == 'quick':
            chk.check('chk', gen_consts(2), invariants=INVS)
            chk.check('pinnedF10', gen_consts(1, FixF10=False, MaxRuns=1, MaxRecs=1), invariants=['MetaTruth'],
                      expect='MetaTruth')
            ex = chk.generate('gen1', gen_consts(1), cassettes=('memory', 'file', 's3'), n_conc=1, sample=2500, cap=4000)
            chk.generate('gen2', gen_consts(2, MaxRuns=1, MaxRecs=1), cassettes=('memory',), n_conc=1, sample=2500, cap=4000)
            chk.generate('afterplay', afterplay_consts(), cassettes=('memory',), n_conc=1, sample=1500, cap=3000)
        else:
            chk.check('chk', gen_consts(3), invariants=INVS, timeout=3000)
            ex = chk.generate('gen1', gen_consts(1), cassettes=('memory', 'file', 's3'), n_conc=2, all_paths=True, cap=200000)
            chk.generate('gen2', gen_consts(2, MaxRuns=1, MaxRecs=1), cassettes=('memory', 'file', 's3'), n_conc=2,
                         all_paths=True, cap=200000)
            chk.generate('gen3', gen_consts(3, MaxRuns=1, MaxRecs=1, Extractors=['ok', 'junk']), cassettes=('memory',),
                         n_conc=1, sample=50000, cap=80000, max_states=800000)
            chk.generate('afterplay', afterplay_consts(), cassettes=('memory', 'file'), n_conc=1, all_paths=True, cap=100000)
        rep.exhaustive = bool(ex)
    finally:
        chk.close()


def replay(rep, body):
    return replay_file(rep, body, CATS)
