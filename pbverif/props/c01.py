"""C01 Replay on unchanged code reproduces the recorded run."""
from ..recprops import RecorderCheck, consts, K, opts, replay_file

CATS = {'pseen', 'pmissing', 'pbout', 'recout', 'pbodies'}
INVS = ['TypeOK', 'ReplayFaithful', 'SameOutputs', 'OutputsExact', 'OneEntryPerCall', 'ReplayableIfComplete',
        'SavedOnlyIfCaptured', 'IdleClean']


def nontrivial(beh):
    return any(s['ev']['kind'] in ('pin', 'pout') for s in beh)


def gen_consts(steps, **over):
    c = dict(InCalls=[('ia1', 1), ('ia1', 2), ('ia2', 1), ('ia2', 2), ('ia3', 0), ('ia4', 1), ('ia4', 2)],
             OutAliases=['oa1', 'oa2'], Vals=['v1', 'v2'], Excs=['E1'],
             Bodies=['plain', 'nestSame', 'nestOther'], InnerCall=('ia1', 2),
             OutResults=[('val', 'v1'), ('val', 'v2'), ('exc', 'E1')], Ends=['ret', 'raise'],
             Classes=[K('K1', copyOn=True), K('K1c')], Ctl=['mutate', 'subop'],
             MaxSteps=steps, MaxRuns=2, MaxRecs=1, Modes=['same'])
    c.update(over)
    return consts(**c)


def history_consts():
    """record, replay, record again, replay again on one long-lived recorder (in any order the model allows): what a
    replay leaves behind must not change how the next run is recorded and replayed"""
    return gen_consts(2, MaxRuns=4, MaxRecs=2, Classes=[K('K1')], Bodies=['plain'], InCalls=[('ia1', 1), ('ia2', 1)],
                      OutAliases=['oa1'], Vals=['v1'], OutResults=[('val', 'v1'), ('exc', 'E1')], Ctl=[])


def afterfail_consts():
    """a replay of *changed* code that fails half-way (a call that was never recorded, after outputs were already sent),
    survived by the caller, then the replay of the unchanged program on the same recorder"""
    return gen_consts(2, MaxRuns=3, MaxRecs=1, Modes=['same', 'free'], InOpts=[opts()], OutOpts=[opts()], MaxPSteps=2,
                      Classes=[K('K1')], Bodies=['plain'], InCalls=[('ia1', 1), ('ia1', 2)], OutAliases=['oa1'], Vals=['v1'],
                      OutResults=[('val', 'v1')], Ends=['ret'], Ctl=[])


def deep_consts(n):
    return consts(InCalls=[], OutAliases=['oa1'], Vals=['v1'], OutResults=[('val', 'v1')],
                  Ends=['ret'], Classes=[K('K1')], MaxSteps=n, MaxRuns=2, MaxRecs=1, Modes=['same'],
                  InFaults=['none'], Bodies=['plain'])


def run(rep, tier, seed):
    rep.rule = ('behaviours = complete paths of the TLC state graph of Recorder.tla: a recorded program (inputs / '
                'outputs over instance, static+resolver+capture-subset+handler, property, keyword-captured, '
                'class-level operation, nested interceptions, calls from a worker thread, raising inputs / outputs / '
                'operation) followed by a replay of the same program; replayed into the real TapeRecorder with '
                'cassette = memory / file / S3(fake bucket) and seeded concretisations of the value tokens. '
                'non-trivial = the replay phase makes at least one intercepted call; distinct = event sequence')
    rep.assumptions = ['inputs are functions of alias and captured arguments', 'no mutation after capture',
                       'values in the serializer\'s faithful domain (pool self-validated at start)',
                       'exceptions are compared by type (jsonpickle 0.9.3 drops exception arguments)']
    chk = RecorderCheck(rep, tier, seed, CATS, nontrivial)
    try:
        if tier == 'quick':
            chk.check('chk', gen_consts(3, InCalls=[('ia1', 1), ('ia1', 2), ('ia2', 1), ('ia3', 0)],
                                        Classes=[K('K1', copyOn=True)]), invariants=INVS)
            chk.generate('gen2', gen_consts(2), cassettes=('memory', 'file', 's3'), n_conc=2, sample=2500, cap=4000)
            chk.generate('gen3', gen_consts(3, Classes=[K('K1', copyOn=True)], Bodies=['plain'],
                                            InCalls=[('ia1', 1), ('ia1', 2), ('ia2', 1)], OutAliases=['oa1'],
                                            Vals=['v1'], OutResults=[('val', 'v1'), ('exc', 'E1')]),
                         cassettes=('memory',), n_conc=2, sample=2500, cap=4000)
            chk.generate('history', history_consts(), cassettes=('memory', 'file'), n_conc=1, sample=1500, cap=4000)
            chk.generate('afterfail', afterfail_consts(), cassettes=('memory', 'file'), n_conc=1, all_paths=True, cap=20000)
            chk.generate('deep11', deep_consts(11), cassettes=('memory', 'file', 's3'), n_conc=1, sample=150, cap=300,
                         invariants=['TypeOK', 'ReplayFaithful', 'SameOutputs'])
        else:
            chk.check('chk', gen_consts(3), invariants=INVS, timeout=3000)
            chk.check('chk4', gen_consts(4, InCalls=[('ia1', 1), ('ia2', 1), ('ia2', 2)], OutAliases=['oa1'], Vals=['v1'], Bodies=['plain'],
                                        Classes=[K('K1', copyOn=True)], OutResults=[('val', 'v1'), ('exc', 'E1')]),
                      invariants=INVS, timeout=3000)
            ex = chk.generate('gen2', gen_consts(2), cassettes=('memory', 'file', 's3'), n_conc=4, all_paths=True,
                              cap=200000)
            chk.generate('gen3', gen_consts(3, Classes=[K('K1', copyOn=True)], Bodies=['plain'], Vals=['v1'],
                                            InCalls=[('ia1', 1), ('ia1', 2), ('ia2', 1), ('ia3', 0)], OutAliases=['oa1', 'oa2'],
                                            OutResults=[('val', 'v1'), ('exc', 'E1')]),
                         cassettes=('memory', 'file'), n_conc=1, sample=60000, cap=100000, max_states=400000)
            chk.generate('history', history_consts(), cassettes=('memory', 'file', 's3'), n_conc=1, sample=60000, cap=100000)
            chk.generate('afterfail', afterfail_consts(), cassettes=('memory', 'file', 's3'), n_conc=2, all_paths=True, cap=20000)
            chk.generate('deep13', deep_consts(13), cassettes=('memory', 'file', 's3'), n_conc=2, sample=2000, cap=4000,
                         invariants=['TypeOK', 'ReplayFaithful', 'SameOutputs'])
            rep.exhaustive = bool(ex)
    finally:
        chk.close()


def replay(rep, body):
    return replay_file(rep, body, CATS)
