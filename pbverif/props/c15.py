"""C15 S3 cassette writes are confined: read-only, own prefix, complete-before-visible."""
import datetime
import zlib
import multiprocessing as mp
import random
import threading

import pytz

from .. import mc, tlc
from ..mc import Raw
from ..tlaval import to_json, from_json

INVS = ['ReadOnlyNeverMutates', 'Confined', 'ForeignUntouched', 'TransientCloseRemovesOwn', 'OthersKept',
        'DiscoverableIsFetchable']

COMBOS = {
    'nested':  {'c1': (False, True, 'a'), 'c2': (False, False, 'a/b'), 'c3': (True, False, '')},
    'default': {'c1': (False, True, ''), 'c2': (False, False, 'ab'), 'c3': (True, True, 'ab')},
    'strpfx':  {'c1': (False, True, 'ab'), 'c2': (False, True, 'a'), 'c3': (True, False, 'a')},
    'inner':   {'c1': (False, True, 'a/b'), 'c2': (False, False, 'a'), 'c3': (True, False, '')},
    'same':    {'c1': (False, True, 'a'), 'c2': (False, False, 'a'), 'c3': (True, True, 'a')},
}
TOK = {'R': 'tape_recorder_recordings/', 'F': 'full/', 'M': 'metadata/', '/': '/', 'X': 'unrelated/', 'D1': 'DAY'}


def tla_consts(combo, max_saves, put_order='full-first', delete_whole=False, max_resaves=0, rejects=False, slash_cat=False):
    cd = '(' + ' @@ '.join('"%s" :> [ro |-> %s, transient |-> %s, prefix |-> %s]'
                           % (c, 'TRUE' if ro else 'FALSE', 'TRUE' if tr else 'FALSE', mc.tla(tuple(p)))
                           for c, (ro, tr, p) in sorted(combo.items())) + ')'
    return dict(Cass=set(combo), CassDef=Raw(cd), Cats=Raw('{<<"A">>, <<"A", "B">>, <<"/", "A">>}' if slash_cat else '{<<"A">>, <<"A", "B">>}'),
                MaxSaves=max_saves,
                MaxResaves=max_resaves, Rejects=rejects, PutOrder=put_order, DeleteWhole=delete_whole)


class Replayer(object):
    """Drives real S3TapeCassette objects over one fake bucket along a TLC behaviour of S3Bucket.tla."""

    def __init__(self, combo):
        from ..fake_boto3 import BucketStore, make_s3_cassette
        self.combo = combo
        self.store = BucketStore()
        self.cass = {}
        for c, (ro, tr, p) in combo.items():
            # one of the cassettes stores big recordings in the infrequent-access class (1 KB threshold)
            extra = {'infrequent_access_kb_threshold': 1} if c == 'c2' else {}
            self.cass[c] = make_s3_cassette(self.store, key_prefix=p, read_only=ro, transient=tr, **extra)
        self.day = datetime.datetime.today().strftime('%Y%m%d')
        self.ids = {}  # model unique name ('n1') -> real id
        self.recs = {}  # cassette -> (model id tuple, real recording)
        self.held = {}  # (cassette, model unique name) -> the recording object that cassette saved
        self.close_from = {}  # cassette -> length of the real mutation log when its close() began
        self.raced = set()    # key prefixes under which a save overlapped the two deletions of another cassette's close
        self.threads = {}  # cassette -> (thread, release event, result box)
        for k in ['unrelated/other', 'tape_recorder_recordings/z/full/f/DAY/n9', 'tape_recorder_recordings/z/metadata/f/DAY/n9']:
            self.store.objects[k.replace('DAY', self.day)] = (b'foreign', pytz.utc.localize(datetime.datetime.utcnow()), {})

    def real_key(self, k):
        """model key (token sequence) -> real key string"""
        out = []
        # the day folder is the one the recording's own id names (a run may cross midnight)
        day = self.day
        if k and k[-1] in self.ids:
            day = self.ids[k[-1]].split('/')[-2]
        for t in k:
            if t in TOK:
                out.append(TOK[t].replace('DAY', day))
            elif t in self.ids:
                out.append(self.ids[t].rsplit('/', 1)[1])
            elif t == 'n9':
                out.append('n9')
            else:
                out.append(t)
        return ''.join(out)

    def keyset(self, bucket):
        return set(self.real_key(k) for k in bucket)

    def run(self, beh):
        out = []

        def mm(cat, idx, exp, obs, note):
            out.append({'cat': cat, 'step': idx, 'expected': repr(exp)[:500], 'observed': repr(obs)[:500], 'note': note})
        nlog = 0
        diverged = None  # set once the code legitimately handled a refused put differently from the model (e.g. a retry)
        self.store.after = lambda op, key: self._check_discoverable(self._cur[0], self._cur[1], mm,
                                                                      'right after the bucket mutation %s %s' % (op, key))
        for idx, st in enumerate(beh[1:], 1):
            e = st['ev']
            k, c = e['kind'], e['c']
            cas = self.cass.get(c)
            self.store.owner = c
            self._cur = (idx, st)
            # a save of another cassette with the same prefix overlaps the two deletions of a close: what that race leaves
            # behind depends on the order of the deletions, and completeness is not claimed for it - the prefix is not
            # judged for discoverable => fetchable on the rest of this behaviour (a cassette may be used again later)
            for cc, (_ro, _tr, pp) in self.combo.items():
                if st['closing'][cc] == 'half' and any(st['inflight'][d]['stage'] != 'none'
                                                       for d, (_r2, _t2, p2) in self.combo.items() if d != cc and p2 == pp):
                    self.raced.add(pp)
            try:
                if k == 'savebegin':
                    cat = ''.join(e['id'][:-4])      # id = category / day / unique part  (a category may itself begin with '/')
                    r = cas.create_new_recording(cat)
                    # the relative size of the two objects of a save varies: ordinary (data larger than metadata), or tiny
                    # data with large, highly compressible metadata (the stored full object is then the smaller one)
                    sel = (zlib.crc32(repr([x['ev']['kind'] for x in beh]).encode()) + idx) % 3
                    if sel == 0:
                        r.set_data('key', {'value': [1, 2, 3]})
                        r.add_metadata({'m': 1})
                    elif sel == 1:
                        # a big, incompressible recording (above the infrequent-access threshold where one is set)
                        brnd = random.Random(idx)
                        r.set_data('key', {'value': ''.join(chr(brnd.randrange(33, 127)) for _ in range(6000))})
                        r.add_metadata({'m': 1})
                    else:
                        r.set_data('k', 1)
                        r.add_metadata({'m': 1, 'tags': ['compressible-metadata-value'] * 400})
                    self.ids[e['id'][-1]] = r.id
                    self.recs[c] = r
                    self.held[(c, e['id'][-1])] = r
                elif k == 'resavebegin':
                    r = cas.get_recording(self.ids[e['id'][-1]])
                    r.set_data('key2', {'again': idx})
                    r.add_metadata({'m2': idx})
                    self.recs[c] = r
                elif k == 'resaveheld':
                    # the very object that was saved before (the caller kept it), unchanged; where another cassette with
                    # the same prefix put that id, the caller holds what it fetched from there
                    r = self.held.get((c, e['id'][-1]))
                    if r is None:
                        r = cas.get_recording(self.ids[e['id'][-1]]) if e['id'][-1] in self.ids else None
                    self.recs[c] = r
                elif k == 'reuse':
                    pass    # the same cassette object goes on being used after its close()
                elif k == 'reject':
                    if c in self.threads:
                        self._finish_save(c, crash='reject')
                    else:
                        self._rejected_save(c)
                elif k == 'put1':
                    self._start_save(c)
                elif k == 'put2':
                    self._finish_save(c, crash=False)
                elif k == 'crash':
                    if c in self.threads:
                        self._finish_save(c, crash=True)
                    else:
                        self.recs.pop(c, None)  # died before the first mutation
                elif k == 'roattempt':
                    n0 = len(self.store.mutations)
                    for attempt in (lambda: cas.create_new_recording('A'),
                                    lambda: cas.save_recording(self._foreign_recording())):
                        try:
                            attempt()
                            mm('readonly', idx, 'refused', 'accepted', 'write operation accepted by a read-only cassette')
                        except AssertionError:
                            pass
                        except Exception as ex:  # noqa
                            mm('readonly', idx, 'AssertionError', repr(ex), 'write operation on a read-only cassette')
                    if len(self.store.mutations) != n0:
                        mm('readonly', idx, [], self.store.mutations[n0:], 'read-only cassette mutated the bucket')
                elif k == 'closedel':
                    # the two deletions of one close() call: performed at the first, checked at the second
                    if st['closing'][c] == 'half':
                        self.close_from[c] = len(self.store.mutations)
                        self._start_close(c)
                    else:
                        self._finish_close(c)
                        # closing a transient cassette removes all of its own recordings: nothing this cassette put is
                        # left, unless another cassette with the same prefix put that key (again) after the close began
                        muts = list(self.store.mutations)
                        for j, m in enumerate(muts):
                            if m[0] == 'put' and m[2] == c and m[1] in self.store.objects and not any(
                                    m2[0] == 'put' and m2[1] == m[1] and m2[2] != c for m2 in muts[self.close_from.get(c, 0):]):
                                mm('closeleft', idx, 'removed', m[1], 'object put by the transient cassette %s is still in the bucket '
                                                                      'after its close()' % c)
                elif k == 'closenoop':
                    if (hash(repr(e)) + idx) % 2:
                        cas.close()
                    else:
                        with cas:
                            pass
            except Exception as ex:  # noqa
                import traceback
                mm('harness', idx, '', traceback.format_exc()[-800:], repr(ex))
                break
            # -- compare bucket and mutation log ---------------------------------------------------------
            # How a refused put is handled is not part of the property (the model abandons the save; retrying it would be
            # as good): a difference at such a step is drift, and the model's bucket is not compared any further on this
            # behaviour - the model-independent oracles below (read-only, own prefix, discoverable => fetchable, also
            # right after every single mutation) keep judging it.
            exp_keys = self.keyset(st['bucket'])
            got_keys = set(self.store.objects)
            model_log = [(l['op'], self.real_key(l['key']), l['c']) for l in st['log']]
            real_log = list(self.store.mutations)
            differs = exp_keys != got_keys or sorted(model_log[nlog:]) != sorted(real_log[nlog:])
            if differs and k == 'reject' and diverged is None:
                diverged = idx
                mm('after_reject', idx, sorted(exp_keys), sorted(got_keys), 'bucket after a refused put differs from the model (drift)')
            if diverged is None:
                if exp_keys != got_keys:
                    mm('bucket', idx, sorted(exp_keys - got_keys), sorted(got_keys - exp_keys),
                       'bucket content after %s(%s): missing / unexpected keys' % (k, c))
                if sorted(model_log[nlog:]) != sorted(real_log[nlog:]):
                    mm('mutations', idx, model_log[nlog:], real_log[nlog:], 'bucket mutations made by %s(%s)' % (k, c))
            nlog = len(real_log)
            # -- observable statements directly on the real bucket ------------------------------------------
            for m in self.store.mutations:
                ro, tr, p = self.combo[m[2]]
                own = 'tape_recorder_recordings/' + ((p + '/') if p else '')
                if ro:
                    mm('readonly', idx, 'no mutation', m, 'a read-only cassette mutated the bucket')
                if not (m[1].startswith(own + 'full/') or m[1].startswith(own + 'metadata/')):
                    mm('confined', idx, own, m, 'mutation outside the cassette\'s own key prefix')
            self._check_discoverable(idx, st, mm)
        self.store.after = None
        # release anything still blocked
        for c in list(self.threads):
            if c.startswith('close-'):
                self._finish_close(c[len('close-'):])
            else:
                self._finish_save(c, crash=True)
        return out

    def _foreign_recording(self):
        from playback.recordings.memory.memory_recording import MemoryRecording
        r = MemoryRecording('A/%s/feedfacefeedfacefeedfacefeedface' % self.day)
        r.set_data('k', 1)
        return r

    # a save is two bucket mutations: the real call runs in a thread that is held before its second mutation
    def _start_save(self, c):
        r = self.recs[c]
        ev_second = threading.Event()
        reached = threading.Event()
        box = []
        count = [0]
        me = [None]

        def gate(op, key):
            if threading.current_thread() is me[0]:
                count[0] += 1
                if count[0] == 2:
                    reached.set()
                    ev_second.wait(20)
                    if box and box[0] == 'crash':
                        from ..fake_boto3 import InjectedCrash
                        raise InjectedCrash('process died before the second bucket mutation')
                    if box and box[0] == 'reject':
                        from ..fake_boto3 import service_error
                        raise service_error()

        def work():
            try:
                self.cass[c].save_recording(r)
                box.append('done')
            except BaseException as ex:  # noqa
                box.append(ex)
            finally:
                reached.set()
        prev = self.store.gate
        self._gates = getattr(self, '_gates', {})
        self._gates[c] = gate
        self.store.gate = lambda op, key: [g(op, key) for g in list(self._gates.values())]
        t = threading.Thread(target=work)
        me[0] = t
        self.store.owner = c
        t.start()
        reached.wait(20)
        self.threads[c] = (t, ev_second, box)

    def _finish_save(self, c, crash):
        t, ev_second, box = self.threads.pop(c)
        if crash:
            box.insert(0, 'reject' if crash == 'reject' else 'crash')
        self.store.owner = c
        ev_second.set()
        t.join(20)
        self._gates.pop(c, None)

    def _rejected_save(self, c):
        """the first put of the save is refused by the bucket"""
        from ..fake_boto3 import service_error
        me = threading.current_thread()
        fired = []

        def gate(op, key):
            if threading.current_thread() is me and op == 'put' and not fired:
                fired.append(key)
                raise service_error()
        self._gates = getattr(self, '_gates', {})
        self._gates['rej-' + c] = gate
        self.store.gate = lambda op, key: [g(op, key) for g in list(self._gates.values())]
        try:
            self.cass[c].save_recording(self.recs[c])
        except Exception:  # noqa  (whether and what the save raises after a refused put is not judged)
            pass
        finally:
            self._gates.pop('rej-' + c, None)

    def _start_close(self, c):
        ev_second = threading.Event()
        reached = threading.Event()
        me = [None]
        state = {'phase': 0}
        first_prefix = []

        def gate(op, key):
            # hold the close between its two prefix deletions: the second deletion starts with the first metadata key
            if threading.current_thread() is me[0] and op == 'list' and state['phase'] == 0 and \
                    key == 'tape_recorder_recordings/' + ((self.combo[c][2] + '/') if self.combo[c][2] else '') + 'metadata/':
                state['phase'] = 1
                reached.set()
                ev_second.wait(20)

        def work():
            try:
                self.cass[c].close()
            finally:
                state['phase'] = 2
                reached.set()
        self._gates = getattr(self, '_gates', {})
        self._gates['close-' + c] = gate
        self.store.gate = lambda op, key: [g(op, key) for g in list(self._gates.values())]
        t = threading.Thread(target=work)
        me[0] = t
        self.store.owner = c
        t.start()
        reached.wait(20)
        self.threads['close-' + c] = (t, ev_second, state)

    def _finish_close(self, c):
        t, ev_second, state = self.threads.pop('close-' + c)
        self.store.owner = c
        ev_second.set()
        t.join(20)
        self._gates.pop('close-' + c, None)

    def _check_discoverable(self, idx, st, mm, when='after the step'):
        from ..fake_boto3 import make_s3_cassette
        gate, self.store.gate = self.store.gate, None
        after, self.store.after = self.store.after, None
        try:
            for c, (ro, tr, p) in self.combo.items():
                if p in self.raced or any(st['closing'][d] != 'no' for d, (_r, _t, p2) in self.combo.items() if p2 == p):
                    continue  # completeness of discoverable recordings is claimed for saves only, not during clean-up
                reader = make_s3_cassette(self.store, key_prefix=p, read_only=True)
                n0 = len(self.store.mutations)
                for cat in ('A', 'AB', '/A'):
                    try:
                        ids = list(reader.iter_recording_ids(cat))
                    except Exception as ex:  # noqa
                        mm('discoverable', idx, 'a listing', repr(ex), 'listing raised on cassette prefix %r' % p)
                        continue
                    for rid in ids:
                        try:
                            reader.get_recording(rid)
                            reader.get_recording_metadata(rid)
                        except Exception as ex:  # noqa
                            mm('discoverable', idx, 'fetchable', repr(ex),
                               'recording %s is discoverable through prefix %r but not fetchable (%s)' % (rid, p, when))
                if len(self.store.mutations) != n0:
                    mm('readonly', idx, [], self.store.mutations[n0:], 'lookup / fetch mutated the bucket')
        finally:
            self.store.gate = gate
            self.store.after = after


_G = {}


def _work(task):
    name, combo, items = task
    g = _G[name]
    res = []
    for it in items:
        beh = [g.states[n] for n in it]
        r = Replayer(combo)
        mm = r.run(beh)
        res.append({'mm': mm, 'summary': [(s['ev']['kind'], s['ev']['c']) for s in beh[1:]],
                    'beh_json': [to_json(s) for s in beh] if mm else None})
    return name, res


# what C15 states, evaluated on the real bucket and its mutation log after every step (and, for discoverable => fetchable,
# right after every single mutation).  Differences between the real bucket / mutation log and the model's ('bucket',
# 'mutations') are drift: another order of the two deletions of a close, a put that is skipped because the identical
# object is already there, a retried put ... keep the property
CATS = {'readonly', 'confined', 'discoverable', 'closeleft'}


def run(rep, tier, seed):
    rep.rule = ('behaviours = complete paths of the TLC state graph of spec/S3Bucket.tla for five cassette combinations '
                '(read_only x transient x key prefix among "", a, ab, a/b incl. nested, string-prefix and equal prefixes) '
                'sharing one bucket with foreign objects: create / save as two separately scheduled bucket mutations '
                '(the real save_recording runs in a thread held before its second mutation, so other cassettes act in '
                'between), crash after each mutation, write attempts on read-only cassettes, close / context-manager exit '
                '(the two prefix deletions of a transient close also scheduled separately), a stored recording fetched and saved '
                'again, a held recording object saved again unchanged, a cassette used again after close(); after every step the real '
                'bucket and the mutation log are compared with the model (a difference is drift), every mutation is checked '
                'against read-only / own-prefix, nothing a transient cassette put may be left after its close(), and a fresh '
                'read-only cassette must fetch everything it can list - after every step and right after every single mutation. non-trivial = path with a '
                'crash, a close or a read-only attempt; distinct = event sequence')
    rep.assumptions = ['fake bucket fidelity (prefix listing in key order, delete of listed keys)',
                       'a key prefix literally named "full" or "metadata" is outside the universe']
    # (saves, re-saves of a stored recording, may the bucket refuse a put?)
    # the (1, 1) variant also has a category that begins with a path separator ('/A')
    # (1, 2): one save and two "again" steps - e.g. close, use the cassette again, save the held recording again
    variants = [(2, 0, True), (1, 1, True), (1, 2, False)] if tier == 'quick' else [(3, 0, False), (2, 1, True), (1, 1, True), (1, 2, True)]
    cap = 700 if tier == 'quick' else 25000
    rnd = random.Random(seed + 15)
    all_exh = True
    with tlc.Scratch() as s:
        for bad, kw, inv in (('meta-first put order', dict(put_order='meta-first'), 'DiscoverableIsFetchable'),
                             ('delete the whole key prefix on close', dict(delete_whole=True), 'Confined')):
            mod = 'MC_C15_bad%d' % len(rep.tlc_runs)
            mc.write_mc(s, 'S3Bucket', mod, tla_consts(COMBOS['nested'], 2, **kw), invariants=INVS)
            r = tlc.run_tlc(s, mod, mod + '.cfg')
            rep.add_tlc('design variant: ' + bad, r)
            rep.extra.setdefault('design_counterexamples', []).append({'variant': bad, 'tlc_violation': r.violation})
            if r.violation is None:
                raise tlc.TLCError('the design variant %r should violate an invariant' % bad)
        for (max_saves, max_resaves, rejects), (name, combo) in [(v, c) for v in variants for c in sorted(COMBOS.items())]:
            mod = 'MC_C15_%s_%d%d' % (name, max_saves, max_resaves)
            mc.write_mc(s, 'S3Bucket', mod, tla_consts(combo, max_saves, max_resaves=max_resaves, rejects=rejects,
                                                        slash_cat=(max_saves == 1)), invariants=INVS)
            r, g = tlc.dump_graph(s, mod, mod + '.cfg', max_states=900000)
            rep.add_tlc('%s (saves<=%d, re-saves<=%d, refused puts: %s)' % (name, max_saves, max_resaves, rejects), r, obligations=INVS)
            if r.violation:
                rep.violation({'summary': 'TLC: %s violated on S3Bucket combination %s' % (r.violation, name),
                               'signature': 'tlc:%s:%s' % (name, r.violation)})
                continue
            total, _ = g.count_paths()
            if total <= cap:
                paths = list(g.iter_all_paths())
            else:
                all_exh = False
                paths = g.edge_cover_paths(rnd)
                if len(paths) > cap:
                    # keep the cover's paths that contain the rarer actions first
                    rare = {'Reject', 'ResaveBegin', 'Crash', 'Reuse', 'ResaveHeld'}
                    lab = {(a, b): l for a, out in g.succ.items() for l, b in out}   # action names from the dump
                    rnd.shuffle(paths)
                    paths.sort(key=lambda p: -len(rare & set(lab.get(e) for e in zip(p, p[1:]))))
                    paths = paths[:cap]
                seen = set(map(tuple, paths))
                while len(paths) < cap:
                    p = tuple(g.random_path(rnd))
                    if p not in seen:
                        seen.add(p)
                        paths.append(list(p))
            rep.extra.setdefault('generating', []).append({'combination': name, 'cassettes': {k: list(v) for k, v in combo.items()},
                                                           'graph_states': len(g.states), 'complete_paths': total,
                                                           'paths_replayed': len(paths)})
            _G[mod] = g
            tasks = [(mod, combo, paths[i:i + 40]) for i in range(0, len(paths), 40)]
            ctx = mp.get_context('fork')
            with ctx.Pool(min(tlc.NCPU, max(1, len(tasks)))) as pool:
                for nm, res in pool.imap_unordered(_work, tasks):
                    for rr in res:
                        rep.traces += 1
                        rep.evaluations += 1
                        kinds = [k for k, _c in rr['summary']]
                        for k in kinds:
                            rep.count_action(k)
                        rep.note_behaviour((nm, rr['summary']), bool(set(kinds) & {'crash', 'closedel', 'closenoop', 'roattempt', 'reject', 'resavebegin', 'resaveheld', 'reuse'}))
                        if len(rep.samples) < 3 and 'crash' in kinds:
                            rep.sample({'combination': name, 'behaviour': rr['summary']})
                        harness = [m for m in rr['mm'] if m['cat'] == 'harness']
                        bad = [m for m in rr['mm'] if m['cat'] in CATS]
                        drift = [m for m in rr['mm'] if m['cat'] not in CATS and m['cat'] != 'harness']
                        rep.drift += len(drift)
                        if drift and 'drift_sample' not in rep.extra:
                            rep.extra['drift_sample'] = {'combination': name, 'behaviour': rr['summary'], 'first': drift[0]}
                        if harness and not bad and not drift:
                            # (a step that cannot be driven after the code already left the model is a consequence, not a
                            # machinery failure: the violations recorded before it are reported)
                            raise RuntimeError('harness failure: %s' % harness[0]['observed'])
                        if bad:
                            rep.violation({'summary': '[%s] %s: %s (expected %s, observed %s)'
                                                      % (nm, bad[0]['cat'], bad[0]['note'], bad[0]['expected'][:150], bad[0]['observed'][:200]),
                                           'signature': None, 'mismatches': bad[:5]},
                                          replay={'kind': 's3bucket', 'combination': name, 'behaviour': rr['beh_json'],
                                                  'summary': rr['summary']})
            _G[mod] = None
    rep.exhaustive = all_exh


def replay(rep, body):
    rp = body['replay']
    beh = [from_json(s) for s in rp['behaviour']]
    mm = Replayer(COMBOS[rp['combination']]).run(beh)
    for m in mm:
        print('VIOLATING' if m['cat'] in CATS else 'drift', str(m)[:500])
    return not [m for m in mm if m['cat'] in CATS]
