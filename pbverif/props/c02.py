"""C02 Replay answers every interception from the recording or an explicit policy."""
from ..recprops import RecorderCheck, consts, K, opts, replay_file

CATS = {'pseen', 'pbodies', 'pcalls', 'pstore'}
INVS = ['TypeOK', 'NoSilentInvention', 'IdleClean', 'OneEntryPerCall']

IN_OPTS = [opts(), opts(fb=('ia1',)), opts(runOrig=True), opts(subst='value'), opts(subst='falsy'),
           opts(subst='callable'), opts(fb=('ia1',), runOrig=True, subst='value'), opts(runOrig=True, subst='value'),
           opts(fb=('iaX', 'ia1'), subst='falsy')]
IN_OPTS_NOFB = [o for o in IN_OPTS if not o['fb']]
OUT_OPTS = [opts(), opts(failMissing=False)]


def nontrivial(beh):
    return any(s['ev']['kind'] in ('pin', 'pout') and
               (tuple(s['ev']['seen'])[0] in ('sub', 'dflt', 'err') or s['ev']['bodyRuns'] or s['ev']['step']['opt'] > 1)
               for s in beh)


def gen_consts(rec_steps, **over):
    c = dict(InCalls=[('ia1', 1), ('ia1', 2), ('ia5', 1), ('ia5', 2)], OutAliases=['oa1'], Vals=['v1'], Excs=['E1'],
             OutResults=[('val', 'v1')], Ends=['ret'], Classes=[K('K1')],
             StartEnabled=[True, False], Toggles=1,
             MaxSteps=rec_steps, MaxRuns=3, MaxRecs=1, Modes=['free'], InOpts=IN_OPTS, OutOpts=OUT_OPTS,
             Ctl=['playdata'], PlayFaults=['unknown'])
    c.update(over)
    return consts(**c)


def nested_orig_consts():
    """an input added after the recording was made (missing key, run-original) whose original calls another intercepted
    input that *is* in the recording (directly or from a worker thread)"""
    return gen_consts(2, MaxPSteps=2, MaxRuns=2, InCalls=[('ia1', 2), ('ia5', 1)], InnerCall=('ia1', 2), OutAliases=['oa1'],
                      InOpts=[opts(), opts(runOrig=True)], FreeBodies=['', 'nestSame', 'nestOther'],
                      Toggles=0, StartEnabled=[True], Ctl=[], PlayFaults=[])


def after_interrupt_consts():
    """a recorded run that is cut short inside an intercepted body, survived by the service, then a replay of an earlier
    recording on the same recorder (and thread)"""
    return gen_consts(1, MaxPSteps=1, MaxRuns=3, MaxRecs=2, InCalls=[('ia1', 1)], OutAliases=['oa1'], Bodies=['plain', 'interrupt'],
                      OutResults=[('val', 'v1'), ('int', 'BI')], Ends=['ret', 'interrupt'], InOpts=[opts()],
                      Toggles=0, StartEnabled=[True], Ctl=[], PlayFaults=[])


def ctl_free_consts():
    """replayed code that calls discard_recording() / force_sample_recording() between calls of one output alias: no-ops
    while replaying, every call is still answered with the result recorded for *its* ordinal"""
    return gen_consts(3, MaxPSteps=3, MaxRuns=2, InCalls=[('ia1', 1)], OutAliases=['oa1'], InOpts=[opts()], OutOpts=[opts()],
                      Toggles=0, StartEnabled=[True], Ctl=['discard', 'force'], PlayFaults=[])


def run(rep, tier, seed):
    rep.rule = ('behaviours = complete paths of the TLC state graph of Recorder.tla: a recorded program, then one or '
                'two replays of *arbitrary* programs (calls present or absent in the recording) whose interceptions '
                'carry every combination of missing-key options from a fixed lattice (fallback alias list/function, '
                'run-original, substitute value / falsy value / callable, fail-on-missing-result + default), with '
                'recording enabled or disabled while replaying, and play() of an id that was never saved. oracle per '
                'call = documented policy; bodies journalled; cassette snapshot + spy calls around play(). '
                'non-trivial = a replayed call is answered by policy (substitute / default / run-original / error) '
                'or uses a non-default option; distinct = event sequence')
    rep.assumptions = ['fallback aliases are looked up with the same captured arguments as the main alias']
    chk = RecorderCheck(rep, tier, seed, CATS, nontrivial)
    try:
        if tier == 'quick':
            chk.check('chk', gen_consts(2, MaxRuns=2, Toggles=0, StartEnabled=[True]), invariants=INVS)
            chk.check('pinnedF1', gen_consts(1, FixF1=False, MaxRuns=2, Toggles=0, StartEnabled=[True], PlayFaults=[]),
                      invariants=['NoSilentInvention', 'TypeOK'])
            chk.generate('gen1', gen_consts(1, MaxRuns=2, Toggles=0, StartEnabled=[True]), cassettes=('memory', 'file', 's3'),
                         n_conc=2, sample=1500, cap=2500)
            chk.generate('gen2', gen_consts(1, InOpts=IN_OPTS[:3] + IN_OPTS[4:5], InCalls=[('ia1', 1), ('ia5', 1)]),
                         cassettes=('memory',), n_conc=2, sample=2500, cap=4000)
            chk.generate('gen3runs', gen_consts(1, MaxPSteps=2, InOpts=IN_OPTS[:1], InCalls=[('ia1', 1), ('ia1', 2)],
                                                Toggles=0, StartEnabled=[True], Ctl=[], PlayFaults=[]),
                         cassettes=('memory',), n_conc=1, sample=3000, cap=5000)
            # two recordings: a failing replay of one must not influence the replay of the other
            chk.generate('tworecs', gen_consts(1, MaxPSteps=1, MaxRuns=4, MaxRecs=2, InCalls=[('ia1', 1), ('ia1', 2)],
                                               InOpts=[opts(), opts(runOrig=True), opts(subst='falsy')], OutAliases=[],
                                               Toggles=0, StartEnabled=[True], Ctl=[], PlayFaults=[]),
                         cassettes=('memory',), n_conc=1, sample=3000, cap=5000)
            # a recording that holds the main alias *and* a fallback alias for the same arguments: the main alias wins
            chk.generate('bothkeys', gen_consts(2, MaxPSteps=1, MaxRuns=2, InCalls=[('ia1', 1), ('ia5', 1)], OutAliases=[],
                                                InOpts=[opts(), opts(fb=('ia1',)), opts(fb=('iaX', 'ia1'), subst='value')],
                                                Toggles=0, StartEnabled=[True], Ctl=[], PlayFaults=[]),
                         cassettes=('memory', 'file'), n_conc=1, sample=2000, cap=3000)
            chk.generate('genv', gen_consts(1, InOpts=IN_OPTS_NOFB, InCalls=[('ia2', 1), ('ia3', 0), ('ia4', 2)],
                                            OutAliases=['oa2'], MaxRuns=2, Toggles=0, StartEnabled=[True], Ctl=[]),
                         cassettes=('memory',), n_conc=2, sample=1500, cap=2500)
            chk.generate('nestedorig', nested_orig_consts(), cassettes=('memory',), n_conc=1, sample=2000, cap=3000)
            chk.generate('afterintr', after_interrupt_consts(), cassettes=('memory',), n_conc=1, sample=2000, cap=3000)
            chk.generate('ctlfree', ctl_free_consts(), cassettes=('memory',), n_conc=1, sample=2000, cap=4000)
        else:
            chk.check('chk', gen_consts(3, MaxRuns=2, Toggles=0, StartEnabled=[True]), invariants=INVS, timeout=3000)
            chk.generate('gen1', gen_consts(1, MaxRuns=2, Toggles=0, StartEnabled=[True]),
                         cassettes=('memory', 'file', 's3'), n_conc=4, all_paths=True, cap=150000)
            # two recordings: a failing replay of one must not influence the replay of the other
            chk.generate('tworecs', gen_consts(1, MaxPSteps=1, MaxRuns=4, MaxRecs=2, InCalls=[('ia1', 1), ('ia1', 2)],
                                               InOpts=[opts(), opts(runOrig=True), opts(subst='falsy')], OutAliases=[],
                                               Toggles=0, StartEnabled=[True], Ctl=[], PlayFaults=[]),
                         cassettes=('memory',), n_conc=1, sample=3000, cap=5000)
            # a recording that holds the main alias *and* a fallback alias for the same arguments: the main alias wins
            chk.generate('bothkeys', gen_consts(2, MaxPSteps=1, MaxRuns=2, InCalls=[('ia1', 1), ('ia5', 1)], OutAliases=[],
                                                InOpts=[opts(), opts(fb=('ia1',)), opts(fb=('iaX', 'ia1'), subst='value')],
                                                Toggles=0, StartEnabled=[True], Ctl=[], PlayFaults=[]),
                         cassettes=('memory', 'file'), n_conc=1, sample=2000, cap=3000)
            chk.generate('genv', gen_consts(2, InOpts=IN_OPTS_NOFB, InCalls=[('ia2', 1), ('ia3', 0), ('ia4', 2)],
                                            OutAliases=['oa2'], MaxRuns=2, Toggles=0, StartEnabled=[True], Ctl=[]),
                         cassettes=('memory', 'file'), n_conc=2, sample=40000, cap=60000, max_states=600000)
            chk.generate('gen2', gen_consts(2, InCalls=[('ia1', 1), ('ia5', 1)]), cassettes=('memory', 'file'),
                         n_conc=2, sample=80000, cap=120000, max_states=600000)
            chk.generate('nestedorig', nested_orig_consts(), cassettes=('memory', 'file'), n_conc=1, all_paths=True, cap=100000)
            chk.generate('afterintr', after_interrupt_consts(), cassettes=('memory', 'file'), n_conc=1, all_paths=True, cap=100000)
            chk.generate('ctlfree', ctl_free_consts(), cassettes=('memory', 'file'), n_conc=1, sample=40000, cap=60000)
    finally:
        chk.close()


def replay(rep, body):
    return replay_file(rep, body, CATS)
