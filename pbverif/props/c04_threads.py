"""C04, schedule part (RecorderThreads.tla + detsched).  Filled in once the scheduler exists."""


def run_part(rep, tier, seed):
    rep.extra['threads_part'] = 'not built yet'


def replay(rep, body):
    return True
