"""C04, schedule part: spec/RecorderThreads.tla schedules replayed on the real TapeRecorder with worker threads.

Yield points of the deterministic scheduler = every point where the recorder calls out: serialisation of an argument
while the key is built, the wrapped body (start and end), the data handler, cassette.abort_recording (entry and
return).  Oracle = transparency per worker: the caller gets the very object / exception its body produced, each body
runs exactly once, nothing else is raised into the service, and the operation returns its own result.
"""
import itertools
import zlib
import multiprocessing as mp
import random

from .. import mc, tlc
from ..detsched import Scheduler, Deadlock, StepLimit
from ..mc import Raw

INVS = ['Transparent', 'BodyAtMostOnce', 'IdleAtEnd', 'SaveXorAbort']


class Chooser(object):
    def __init__(self, moves):
        self.moves = list(moves)
        self.i = 0
        self.seen = 0
        self.target = None
        self.drift = 0

    def __call__(self, enabled, sched):
        new = sched.log[self.seen:]
        self.seen = len(sched.log)
        if self.target is not None and any(e['by'] == self.target for e in new):
            self.target = None
        names = [n for n, h in enabled if h == 'run']
        # a participant that was just preempted at a line anchor lets somebody else run first
        cur = [n for n in names if sched.parts[n].label.startswith('anchor:') and not getattr(sched.parts[n], 'anchor_served', None) == sched.parts[n].label + str(len(sched.preemptions))]
        if cur:
            p = sched.parts[cur[0]]
            p.anchor_served = p.label + str(len(sched.preemptions))
            others = [n for n in names if n != cur[0]]
            if others:
                self.target = None
                return (others[(len(sched.preemptions) + self.i) % len(others)], 'run')
        if self.target is None and self.i < len(self.moves):
            self.target = self.moves[self.i]
            self.i += 1
        if self.target is not None:
            if self.target in names:
                return (self.target, 'run')
            self.drift += 1
            self.target = None
        return (sorted(names)[0], 'run') if names else enabled[0]


def execute(faults, dact, moves, anchor_seed=None):
    from playback.tape_recorder import TapeRecorder, RecordingParameters
    from playback.tape_cassettes.in_memory.in_memory_tape_cassette import InMemoryTapeCassette
    from playback.tape_cassette import TapeCassette
    from playback.interception.input_interception import InputInterceptionDataHandler
    chooser = Chooser(moves)
    sched = Scheduler(chooser, urgency=True, max_steps=3000)
    if anchor_seed is not None:
        import playback.tape_recorder as _trm
        import playback.recording as _rm
        sched.set_anchors(_trm.__file__.replace('.pyc', '.py'),
                          r'_active_recording|_force_sample|_invoke_counter|_currently_in_interception',
                          random.Random(anchor_seed), budget=2, prob=0.12)
    inner = InMemoryTapeCassette()
    res = {'violations': [], 'drift': 0}

    class YieldingCassette(TapeCassette):
        def create_new_recording(self, category):
            return inner.create_new_recording(category)

        def abort_recording(self, recording=None):
            sched.emit('abort-entry')
            sched.yield_point('cassette.abort')
            r = inner.abort_recording(recording)
            sched.emit('aborted')
            sched.yield_point('cassette.aborted')
            return r

        def save_recording(self, recording):
            return inner.save_recording(recording)

        def _save_recording(self, recording):
            return inner._save_recording(recording)

        def get_recording(self, rid):
            return inner.get_recording(rid)

        def iter_recording_ids(self, *a, **k):
            return inner.iter_recording_ids(*a, **k)

        def extract_recording_category(self, rid):
            return inner.extract_recording_category(rid)

    class Arg(object):
        """argument whose serialisation (key building) is a yield point; keyFail: it cannot be serialised"""

        def __init__(self, w):
            self.w = w

        def __getstate__(self):
            sched.emit('key-building')
            sched.yield_point('key')
            if faults[self.w] == 'keyFail':
                raise RuntimeError('scripted: argument cannot be serialised')
            return {'w': self.w}

    class Handler(InputInterceptionDataHandler):
        def prepare_input_for_recording(self, interception_key, result, args, kwargs):
            w = args[1].w
            sched.emit('prepare')
            sched.yield_point('prepare')
            if faults[w] == 'prepFail':
                raise ValueError('scripted data handler failure')
            return {'v': result}

        def restore_input_from_recording(self, recorded_data, args, kwargs):
            return recorded_data['v']

    # the recorder's log calls are call-outs too: with a yielding logger the schedules also preempt between a check of the
    # shared state and its use (e.g. inside discard_recording and _record_data)
    import playback.tape_recorder as trm

    class YieldingLogger(object):
        def _log(self, *a, **k):
            sched.emit('log')
            sched.yield_point('log')
        info = debug = warning = exception = error = _log
    old_logger = trm._logger
    trm._logger = YieldingLogger()
    tr = TapeRecorder(YieldingCassette())
    tr.enable_recording()
    produced = {}
    ran = {}
    seen = {}
    op_result = ['the operation result']

    class Op(object):
        @tr.operation()
        def execute(self):
            for w in sorted(faults):
                sched.spawn(w, self.make_worker(w))
            sched.spawn('d', self.discarder)
            sched.block_until(lambda: all(sched.parts[p].state in ('done', 'killed') for p in list(faults) + ['d']), None, 'join')
            sched.emit('joined')
            return op_result

        def make_worker(self, w):
            def run():
                try:
                    seen[w] = ('val', self.inp(Arg(w)))
                except BaseException as ex:  # noqa
                    seen[w] = ('exc', ex)
                sched.emit('call-done')
            return run

        def discarder(self):
            sched.emit('d-start')
            sched.yield_point('d')
            if dact == 'discard':
                tr.discard_recording()
            elif dact == 'force':
                tr.force_sample_recording()
            sched.emit('d-done')

        @tr.intercept_input('worker.input', data_handler=Handler())
        def inp(self, arg):
            w = arg.w
            sched.emit('body-start')
            sched.yield_point('body')
            ran[w] = ran.get(w, 0) + 1
            produced[w] = ['value of', w] if w != 'w2' else KeyError('raised by the body of w2')
            sched.emit('body-end')
            sched.yield_point('body-end')
            if isinstance(produced[w], Exception):
                raise produced[w]
            return produced[w]
    Op.__module__ = 'pbverif.opclasses'
    import pbverif.opclasses as oc
    Op.__qualname__ = Op.__name__ = 'ThreadsOp'
    oc.ThreadsOp = Op
    main_seen = []

    def main():
        try:
            main_seen.append(('val', Op().execute()))
        except BaseException as ex:  # noqa
            main_seen.append(('exc', ex))
    sched.spawn('m', main)
    try:
        sched.run()
    except (Deadlock, StepLimit) as ex:
        res['violations'].append('the operation does not finish: %s' % str(ex)[:200])
    finally:
        sched.shutdown()
        trm._logger = old_logger
    for w in sorted(faults):
        if ran.get(w, 0) != 1:
            res['violations'].append('body of %s executed %d times' % (w, ran.get(w, 0)))
        s = seen.get(w)
        if s is None:
            res['violations'].append('caller of %s never got an answer' % w)
        elif isinstance(produced.get(w), Exception):
            if not (s[0] == 'exc' and s[1] is produced[w]):
                res['violations'].append('caller of %s saw %r instead of the exception its body raised' % (w, s))
        elif not (s[0] == 'val' and s[1] is produced.get(w)):
            res['violations'].append('caller of %s saw %r instead of the object its body returned' % (w, s))
    for n, p in sched.parts.items():
        if p.exc is not None:
            res['violations'].append('thread %s of the service got %r from the recorder' % (n, p.exc))
    if not main_seen or main_seen[0][0] != 'val' or main_seen[0][1] is not op_result:
        res['violations'].append('operation outcome %r instead of its own result' % (main_seen,))
    # observation, not part of C04's statement (and schedules are outside C09's / C17's quantifiers): a force request racing
    # with a discard can leave the forced-sampling flag set after the operation
    res['not_idle_after'] = bool(tr.in_recording_mode or tr.is_recording_sample_forced)
    res['drift'] = chooser.drift
    res['steps'] = sched.steps
    return res


_G = {}


def _work(task):
    import logging
    logging.disable(logging.CRITICAL)
    name, faults, dact, items, anchored = task
    g = _G[name]
    out = []
    for k, it in enumerate(items):
        moves = [g.states[n]['who'] for n in it[1:]]
        r = execute(faults, dact, moves)
        r['moves'] = moves
        r['anchor_seed'] = None
        out.append(r)
        # the same schedule with up to two randomised preemptions at line anchors (accesses to the shared state)
        for j in range(anchored):
            aseed = zlib.crc32(repr((name, k, j)).encode()) & 0xffffff
            r2 = execute(faults, dact, moves, anchor_seed=aseed)
            r2['moves'] = moves
            r2['anchor_seed'] = aseed
            out.append(r2)
    return name, faults, dact, out


def run_part(rep, tier, seed):
    rnd = random.Random(seed + 4)
    quick = tier == 'quick'
    cap = 400 if quick else 6000
    workers = ['w1', 'w2']
    configs = [(dict(zip(workers, f)), d) for f in itertools.product(['none', 'keyFail', 'prepFail'], repeat=2)
               for d in ('discard', 'force', 'none')]
    if quick:  # TLC start-up dominates: a seeded third of the configurations, the discard ones first
        rnd.shuffle(configs)
        configs = sorted(configs, key=lambda c: c[1] != 'discard')[:8]
    total_sched = 0
    with tlc.Scratch() as s:
        for idx, (faults, dact) in enumerate(configs):
            name = 'MC_C04T_%d' % idx
            fl = Raw('(' + ' @@ '.join('"%s" :> "%s"' % kv for kv in sorted(faults.items())) + ')')
            mc.write_mc(s, 'RecorderThreads', name, dict(Workers=set(workers), Fault=fl, DAct=dact), invariants=INVS,
                        properties=['Terminates'], spec='Spec')
            r, g = tlc.dump_graph(s, name, name + '.cfg')
            rep.add_tlc('threads: faults=%s discarder=%s' % (sorted(faults.items()), dact), r, obligations=INVS + ['Terminates'])
            if r.violation:
                rep.violation({'summary': 'TLC: %s violated on RecorderThreads %s %s' % (r.violation, faults, dact),
                               'signature': 'tlc:threads:%s' % r.violation})
                continue
            totalp, _ = g.count_paths()
            if totalp <= cap:
                paths = list(g.iter_all_paths())
            else:
                paths = g.edge_cover_paths(rnd)
                if len(paths) > cap:
                    rnd.shuffle(paths)
                    paths = paths[:cap]
                seenp = set(map(tuple, paths))
                tries = 0
                while len(paths) < cap and tries < 3 * cap:
                    tries += 1
                    p = tuple(g.random_path(rnd))
                    if p not in seenp:
                        seenp.add(p)
                        paths.append(list(p))
            for n in set(x for p in paths for x in p):
                g.states[n]
            _G[name] = g
            total_sched += len(paths)
            tasks = [(name, faults, dact, paths[i:i + 50], 1 if quick else 3) for i in range(0, len(paths), 50)]
            ctx = mp.get_context('fork')
            with ctx.Pool(min(tlc.NCPU, max(1, len(tasks)))) as pool:
                for nm, fts, da, out in pool.imap_unordered(_work, tasks):
                    for res in out:
                        rep.traces += 1
                        rep.evaluations += 1
                        rep.drift += res['drift']
                        if res.get('not_idle_after'):
                            rep.extra['observation_force_flag_left_set_by_race'] = rep.extra.get('observation_force_flag_left_set_by_race', 0) + 1
                        rep.note_behaviour(('threads', nm, tuple(res['moves'])), True)
                        if res['violations']:
                            rep.violation({'summary': 'threads: %s | faults=%s discarder=%s' % (res['violations'][0][:300], fts, da),
                                           'signature': None, 'all': res['violations'][:4]},
                                          replay={'kind': 'threads', 'faults': fts, 'dact': da, 'moves': res['moves'], 'anchor_seed': res.get('anchor_seed')})
            _G[name] = None
    rep.extra['threads_part'] = {'configurations': len(configs), 'schedules_replayed': total_sched}


def replay(rep, body):
    rp = body['replay']
    res = execute(rp['faults'], rp['dact'], rp['moves'], rp.get('anchor_seed'))
    for v in res['violations']:
        print('VIOLATING', v)
    return not res['violations']
