"""C17 The sampling policy alone decides which recordings are kept."""
import random

from ..recprops import RecorderCheck, consts, K, replay_file

CATS = {'decision', 'passthrough'}
INVS = ['TypeOK', 'KeepPolicy', 'SkippedNeverRecords', 'IdleClean', 'FinalisedOnce']


def nontrivial(beh):
    return any(s['ev']['kind'] == 'finalise' and s['ev']['decision'] in ('keep', 'drop', 'discarded') for s in beh)


def classes():
    out = []
    for rate in ('zero', 'frac', 'one', 'above'):
        for ign in (False, True):
            out.append(K('R%s%s' % (rate, 'i' if ign else ''), rate=rate, ign=ign))
    out.append(K('Rskip', rate='one', skipped=True))
    return out


def gen_consts(steps, runs, **over):
    c = dict(InCalls=[('ia1', 1)], OutAliases=['oa1'], Vals=['v1'], Excs=['E1'], Bodies=['plain', 'forces', 'discards'],
             OutResults=[('val', 'v1')], Ctl=['discard', 'force', 'subop'], Ends=['ret', 'raise', 'interrupt'],
             Classes=classes(), Draws=['low', 'high'], MaxSteps=steps, MaxRuns=runs, MaxRecs=runs)
    c.update(over)
    return consts(**c)


def lost_consts(steps):
    return gen_consts(steps, 2, Ends=['ret'], Bodies=['plain', 'forces'], Ctl=['force'], Extractors=['none', 'interrupts'],
                      Classes=[c for c in classes() if c['rate'] in ('frac', 'zero', 'one')])


def run(rep, tier, seed):
    rep.rule = ('(1) decision table: complete paths of the TLC graph of Recorder.tla over skipped x rate {0, fractional, '
                '1, >1} x ignore-forcing x force/discard (from the operation or an intercepted body, in any order) x '
                'outcome {return, raise, interrupt} x draw class, one and two runs (no sticky forcing; incl. a first run whose '
                'finalisation is itself interrupted by a BaseException of the metadata extractor); the draw is '
                'scripted through the module-level Random name. (2) long seeded histories with an unmodified '
                'random.Random: same seed twice, and paired histories that differ only in operation content/outcome, '
                'must give identical decision sequences; the kept fraction must be within 6 sigma of the rate. '
                '(3) storage-level sampling of S3TapeCassette(sampling_calculator=...) over the fake bucket. '
                'non-trivial = a keep/drop/discard decision was taken; distinct = event sequence')
    rep.assumptions = ['a draw exactly equal to the rate is left open', 'rate 0 never keeps (draw == 0.0 has measure zero)']
    chk = RecorderCheck(rep, tier, seed, CATS, nontrivial)
    try:
        if tier == 'quick':
            chk.check('chk', gen_consts(2, 2), invariants=INVS)
            chk.check('chklost', lost_consts(2), invariants=INVS + ['LostOnlyByInterruptedFinalisation'])
            ex = chk.generate('table', gen_consts(2, 1), cassettes=('memory',), n_conc=1, all_paths=True, cap=60000)
            chk.generate('tworuns', gen_consts(1, 2, Ends=['ret'], InCalls=[('ia2', 2)], InFaults=['none', 'prepFail', 'keyFail'],
                                               Classes=[c for c in classes() if c['rate'] in ('frac', 'zero')]),
                         cassettes=('memory',), n_conc=1, all_paths=True, cap=40000)
            # a forced (or otherwise kept) run whose finalisation is itself interrupted (BaseException of the metadata
            # extractor), then a second run: nothing of the first - the force flag least of all - reaches its decision
            chk.generate('lostruns', lost_consts(1), cassettes=('memory',), n_conc=1, all_paths=True, cap=40000)
            long_histories(rep, seed, n=2500)
            storage_sampling(rep, seed, n=400)
            rep.exhaustive = bool(ex)
        else:
            chk.check('chk', gen_consts(3, 2), invariants=INVS, timeout=3000)
            ex = chk.generate('table', gen_consts(2, 1), cassettes=('memory', 'file'), n_conc=2, all_paths=True)
            chk.generate('tworuns', gen_consts(2, 2, Ends=['ret', 'raise']), cassettes=('memory',), n_conc=1,
                         sample=80000, cap=120000, max_states=900000)
            chk.generate('lostruns', lost_consts(2), cassettes=('memory',), n_conc=1, sample=60000, cap=90000, max_states=900000)
            long_histories(rep, seed, n=40000)
            storage_sampling(rep, seed, n=5000)
            rep.exhaustive = bool(ex)
    finally:
        chk.close()


# ------------------------------------------------------------------------------------------------------------------
def _history(seed, n, content_seed, rates):
    """Run n operations of classes with the given rates on one recorder; returns (decisions, draws per decision)."""
    import playback.tape_recorder as trm
    from playback.tape_recorder import TapeRecorder, RecordingParameters
    from playback.tape_cassettes.in_memory.in_memory_tape_cassette import InMemoryTapeCassette
    from ..recbind import SpyCassette
    draws = []

    class LoggingRandom(random.Random):
        def random(self):
            v = super(LoggingRandom, self).random()
            draws.append(v)
            return v
    old = trm.Random
    trm.Random = LoggingRandom
    try:
        spy = SpyCassette(InMemoryTapeCassette())
        tr = TapeRecorder(spy, random_seed=seed)
    finally:
        trm.Random = old
    tr.enable_recording()
    crnd = random.Random(content_seed)
    ops = []
    for i, rate in enumerate(rates):
        class Op(object):
            @tr.operation()
            def execute(self, payload, fail):
                self.inp(payload)
                self.out(payload)
                if fail:
                    raise ValueError('content')
                return payload

            @tr.intercept_input('in')
            def inp(self, x):
                return x

            @tr.intercept_output('out')
            def out(self, x):
                return None
        if rate is None:
            # an operation class without recording parameters (default policy: keep everything) that happens to carry
            # the *name* of class 0: the policy belongs to the class, not to its name
            Op.__name__ = 'HistOp0'
        else:
            Op.__name__ = 'HistOp%d' % i
            tr.recording_params(RecordingParameters(sampling_rate=rate))(Op)
        ops.append(Op)
    decisions = []
    per_decision = []
    krnd = random.Random(seed * 13 + 5)  # which class runs next: independent of the content seed
    for _ in range(n):
        k = krnd.randrange(len(ops))
        n0 = len(draws)
        nlog = len(spy.log)
        try:
            ops[k]().execute([crnd.random(), 'x' * crnd.randrange(5)], crnd.random() < 0.3)
        except ValueError:
            pass
        calls = [c[0] for c in spy.log[nlog:]]
        decisions.append((k, 'save' in calls))
        per_decision.append(len(draws) - n0)
    return decisions, per_decision, list(draws)


def long_histories(rep, seed, n):
    rates = [0.3, 0.7, 1.0, None]
    # seed 0 is a legal seed too: the same seed twice must give the same decisions for it as well
    z1, _, _ = _history(0, min(n, 400), content_seed=11, rates=rates)
    z2, _, _ = _history(0, min(n, 400), content_seed=11, rates=rates)
    if z1 != z2:
        rep.violation({'summary': 'sampling_history: random_seed=0 twice gave different decision sequences', 'signature': None},
                      replay={'kind': 'history', 'seed': 1, 'n': 400, 'index': 0})
    a, da, draws_a = _history(seed + 1, n, content_seed=11, rates=rates)
    b, db, _ = _history(seed + 1, n, content_seed=11, rates=rates)
    c, dc, _ = _history(seed + 1, n, content_seed=99, rates=rates)
    rep.evaluations += 3 * n + 800
    info = {'decisions': n, 'seed': seed + 1}
    if a != b:
        i = next(i for i in range(n) if a[i] != b[i])
        rep.violation({'summary': 'sampling_history: same seed twice gave different decision sequences (first at %d)' % i,
                       'signature': None}, replay={'kind': 'history', 'seed': seed + 1, 'n': n, 'index': i})
    if a != c:
        i = next(i for i in range(n) if a[i] != c[i])
        rep.violation({'summary': 'sampling_history: decisions depend on operation content/outcome (first at %d)' % i,
                       'signature': None}, replay={'kind': 'history', 'seed': seed + 1, 'n': n, 'index': i})
    for k, rate in enumerate(rates):
        rate = 1.0 if rate is None else rate
        ds = [kept for kk, kept in a if kk == k]
        if not ds:
            continue
        frac = sum(ds) / float(len(ds))
        info['class_%d_rate_%s' % (k, rate)] = {'decisions': len(ds), 'kept_fraction': round(frac, 4)}
        if rate >= 1:
            ok = frac == 1.0
        else:
            sigma = (rate * (1 - rate) / len(ds)) ** 0.5
            ok = abs(frac - rate) <= 6 * sigma
        if not ok:
            rep.violation({'summary': 'sampling_history: kept fraction %.4f of %d decisions is not the rate %.2f'
                                      % (frac, len(ds), rate), 'signature': None},
                          replay={'kind': 'history', 'seed': seed + 1, 'n': n, 'rate': rate})
    info['draws_per_fractional_decision'] = sorted(set(d for (k, _), d in zip(a, da) if rates[k] is not None and rates[k] < 1))
    rep.extra['long_histories'] = info
    rep.note_behaviour(('long-history', seed, n), True)


def storage_sampling(rep, seed, n):
    """S3TapeCassette(sampling_calculator): kept iff ratio >= 1 or one uniform draw <= ratio."""
    from playback.recordings.memory.memory_recording import MemoryRecording
    import playback.tape_cassettes.s3.s3_tape_cassette as s3m
    from ..fake_boto3 import make_s3_cassette
    draws = []

    class LoggingRandom(random.Random):
        def random(self):
            v = super(LoggingRandom, self).random()
            draws.append(v)
            return v
    rnd = random.Random(seed + 3)
    ratios = {}

    def calc(category, size, recording):
        return ratios[recording.id]
    old = s3m.Random
    s3m.Random = LoggingRandom
    try:
        cas = make_s3_cassette(key_prefix='samp', read_only=False, sampling_calculator=calc)
    finally:
        s3m.Random = old
    bad = 0
    kept_frac = {0.0: [], 0.35: [], 1.0: [], 2.0: []}
    for i in range(n):
        r = cas.create_new_recording('Cat')
        ratio = rnd.choice(sorted(kept_frac))
        ratios[r.id] = ratio
        r.set_data('k', {'payload': 'x' * rnd.randrange(50)})
        r.add_metadata({'m': i})
        n0 = len(draws)
        cas.save_recording(r)
        try:
            cas.get_recording(r.id)
            kept = True
        except Exception:
            kept = False
        kept_frac[ratio].append(kept)
        d = draws[n0:]
        exp = True if ratio >= 1 else (None if not d else (d[-1] <= ratio if d[-1] != ratio else kept))
        if exp is None or kept != exp:
            bad += 1
            if bad <= 3:
                rep.violation({'summary': 'storage_sampling: ratio=%s draws=%s kept=%s' % (ratio, d, kept), 'signature': None},
                              replay={'kind': 'storage', 'seed': seed, 'index': i})
    rep.evaluations += n
    info = {}
    for ratio, ks in kept_frac.items():
        if ks:
            frac = sum(ks) / float(len(ks))
            info[str(ratio)] = {'n': len(ks), 'kept_fraction': round(frac, 4)}
            if 0 < ratio < 1:
                sigma = (ratio * (1 - ratio) / len(ks)) ** 0.5
                if abs(frac - ratio) > 6 * sigma:
                    rep.violation({'summary': 'storage_sampling: kept fraction %.3f of %d for ratio %.2f' % (frac, len(ks), ratio),
                                   'signature': None}, replay={'kind': 'storage', 'seed': seed})
    rep.extra['storage_sampling'] = info


def replay(rep, body):
    k = body.get('replay', {}).get('kind')
    if k in ('history', 'storage'):
        from ..evidence import Report
        r2 = Report('C17', 'quick', body['replay']['seed'])
        if k == 'history':
            long_histories(r2, body['replay']['seed'] - 1, body['replay'].get('n', 2500))
        else:
            storage_sampling(r2, body['replay']['seed'], 400)
        for v in r2.violations:
            print('VIOLATING', v['what'])
        return not r2.violations
    return replay_file(rep, body, CATS)
