"""C19 The studio plays each recording once under its own category's tuning."""
import datetime
import multiprocessing as mp
import random

from .. import mc, tlc
from ..mc import Raw
from ..values import ScriptedInterrupt

CATOF = ['A', 'AB', 'A', 'A_B', 'AB']      # recording number -> category; recording 3 is flagged incomplete
INCOMPLETE = {3}
INVS = ['OwnTuning', 'AtMostOnce', 'EachOnce', 'FailureIsLocal', 'LookupStaysInCategory', 'VerdictsExact']
VERSION = {}


class World(object):
    """A cassette with the recordings of the model, a recorder, operation classes and a logging tuner."""

    def __init__(self, cassette, n):
        from playback.tape_recorder import TapeRecorder
        from playback.studio.equalizer_tuning import EqualizerTuner, EqualizerTuning
        from playback.studio.equalizer import ComparatorResult, EqualityStatus
        from ..recprops import CASSETTES
        import pbverif.opclasses as oc
        VERSION.clear()      # the recordings are made with the original code
        fac, refetch = CASSETTES[cassette]
        self.inner = fac()
        self.tr = TapeRecorder(self.inner)
        self.tr.enable_recording()
        tr = self.tr
        self.log = []
        self.classes = {}
        world = self
        for cat in sorted(set(CATOF)):
            class Op(object):
                category = cat
                interrupt = False

                @tr.operation()
                def execute(self):
                    v = self.inp()
                    self.out(v)
                    if type(self).interrupt:
                        raise ScriptedInterrupt('cut short')
                    return ('result-of', type(self).category, VERSION.get(type(self).category, 0))

                @tr.intercept_input('in')
                def inp(self):
                    return ('input-of', type(self).category)

                @tr.intercept_output('out')
                def out(self, v):
                    return None
            Op.__name__ = Op.__qualname__ = cat
            Op.__module__ = oc.__name__
            setattr(oc, cat, Op)
            self.classes[cat] = Op
        self.ids = {}
        self.setup_bad = []
        for k in range(1, n + 1):
            cls = self.classes[CATOF[k - 1]]
            cls.interrupt = k in INCOMPLETE
            before = set(self._all_ids())
            try:
                cls().execute()
            except ScriptedInterrupt:
                pass
            cls.interrupt = False
            new = set(self._all_ids()) - before
            if len(new) != 1:
                # LookupStaysInCategory already broken while the world is being built: one recording was made, the
                # per-category lookups now list several new ids
                self.setup_bad.append('after recording one operation of category %s the per-category lookups list %d new '
                                      'ids: %s' % (cls.category, len(new), sorted(new)))
                own = [i for i in new if i.startswith(cls.category + '/')]
                if not own:
                    raise RuntimeError('no id of category %s among %s' % (cls.category, sorted(new)))
                new = set(own[:1])
            self.ids[k] = new.pop()
        self.tr.disable_recording()
        reader = refetch(self.inner) if refetch else self.inner
        self.tr.tape_cassette = reader

        class Tuner(EqualizerTuner):
            def __init__(self):
                self.failing = set()

            def create_category_tuning(self, category):
                world.log.append(('tune', category))
                if category in self.failing:
                    raise ValueError('no tuning for category %s' % category)

                def playback_function(recording):
                    world.log.append(('play', category, recording.id))
                    from playback.tape_recorder import TapeRecorder as TR
                    return recording.get_metadata()[TR.OPERATION_CLASS]().execute()

                def extractor(outputs):
                    world.log.append(('extract', category))
                    return [o.value for o in outputs if '_tape_recorder_operation' in o.key]

                def comparator(a, b):
                    world.log.append(('compare', category))
                    return ComparatorResult(EqualityStatus.Equal if a == b else EqualityStatus.Different)
                return EqualizerTuning(playback_function, extractor, comparator)
        self.tuner = Tuner()

    def _all_ids(self):
        out = []
        for cat in sorted(set(CATOF)):
            out += list(self.inner.iter_recording_ids(cat))
        return out

    def close(self):
        try:
            self.inner.close()
        except Exception:
            pass


def execute(world, init, consumes):
    from playback.studio.studio import PlaybackStudio
    from playback.studio.recordings_lookup import RecordingLookupProperties
    bad = list(world.setup_bad)
    cats = sorted(set(CATOF))
    world.tuner.failing = set(init['failing'])
    VERSION.clear()
    for c in init.get('edited', ()):      # the code of these categories changed since the recordings were made
        VERSION[c] = 1
    probe_order = None
    if init['mode'] == 'explicit':
        # "a deterministic order": the order in which categories are reported is a function of the selected recordings,
        # not of the order in which their ids were listed (probe: the same ids listed backwards; nothing is consumed)
        try:
            probe = PlaybackStudio(cats, world.tuner, world.tr, recording_ids=[world.ids[r] for r in reversed(init['order'])])
            probe_order = list(probe.play())
        except Exception:  # noqa  (reported below, by the run proper)
            probe_order = None
    del world.log[:]
    if init['mode'] == 'explicit':
        rec_ids = [world.ids[r] for r in init['order']]
        studio = PlaybackStudio(cats, world.tuner, world.tr, recording_ids=rec_ids)
    else:
        lp = RecordingLookupProperties(start_date=datetime.datetime.utcnow() - datetime.timedelta(days=1),
                                       limit=init['limit'] or None, skip_incomplete=(init['mode'] != 'lookupall'))
        studio = PlaybackStudio(cats, world.tuner, world.tr, lookup_properties=lp)
    try:
        result = studio.play()
    except Exception as ex:  # noqa
        return ['play() raised %r' % (ex,)]
    expect_cats = set(cats) if init['mode'] != 'explicit' else set(CATOF[r - 1] for r in init['order'])
    if set(result) != expect_cats:
        bad.append('categories reported %s, expected %s' % (sorted(result), sorted(expect_cats)))
    if init['mode'] == 'explicit' and probe_order is not None and list(result) != probe_order:
        bad.append('categories are reported in an order that depends on the order of the id list: %s for ids %s, %s for '
                   'the same ids listed backwards' % (list(result), init['order'], probe_order))
    for c in expect_cats & set(result):
        if c in init['failing']:
            if not isinstance(result[c], Exception):
                bad.append('category %s: the tuner failed but no error is reported (%r)' % (c, result[c]))
        elif isinstance(result[c], Exception):
            bad.append('category %s reports %r although its tuning can be created' % (c, result[c]))
    delivered = {}
    for step in consumes:
        c = step['stream']
        n0 = len(world.log)
        try:
            comp = next(result[c])
        except StopIteration:
            bad.append('stream of category %s ended early (expected recording %d)' % (c, step['rec']))
            continue
        except Exception as ex:  # noqa
            bad.append('stream of category %s raised %r' % (c, ex))
            continue
        exp_id = world.ids[step['rec']]
        rec_no, exp_verdict = step['rec'], step.get('verdict', 'Equal')
        if init['mode'] == 'explicit':
            if comp.recording_id != exp_id:
                bad.append('stream %s produced recording %s, expected %s' % (c, comp.recording_id, exp_id))
        else:
            # the order in which a lookup lists the recordings of a category (and which ones a limit keeps) is left open:
            # every delivered recording must be one of the category's candidates, and none may be delivered twice
            cands = dict((world.ids[k], k) for k in world.ids
                         if CATOF[k - 1] == c and (init['mode'] == 'lookupall' or k not in INCOMPLETE))
            if comp.recording_id not in cands:
                bad.append('stream %s produced recording %s, which is not among the recordings a lookup of that category may '
                           'select (%s)' % (c, comp.recording_id, sorted(cands)))
            elif comp.recording_id in delivered.setdefault(c, set()):
                bad.append('stream %s produced recording %s twice' % (c, comp.recording_id))
            else:
                delivered[c].add(comp.recording_id)
                rec_no = cands[comp.recording_id]
                exp_verdict = 'Different' if (CATOF[rec_no - 1] in init.get('edited', ()) or rec_no in INCOMPLETE) else 'Equal'
        if comp.comparator_status.equality_status.name != exp_verdict:
            bad.append('recording %d (%s) compared %s, expected %s' % (rec_no, CATOF[rec_no - 1], comp.comparator_status,
                                                                        exp_verdict))
        used = [e for e in world.log[n0:] if e[0] in ('play', 'extract', 'compare')]
        wrong = [e for e in used if e[1] != CATOF[rec_no - 1]]
        if wrong or not [e for e in used if e[0] == 'play']:
            bad.append('recording %d of category %s was handled with %s' % (rec_no, CATOF[rec_no - 1], used))
    for c in expect_cats & set(result):
        if not isinstance(result[c], Exception):
            extra = next(result[c], None)
            if extra is not None:
                bad.append('stream of category %s produced an extra comparison for %s' % (c, extra.recording_id))
    return bad


_G = {}


def _work(task):
    import logging
    logging.disable(logging.CRITICAL)
    cassette, n, items = task
    g = _G['g']
    w = World(cassette, n)
    out = []
    try:
        for it in items:
            init = g.states[it[0]]
            last = g.states[it[-1]]
            consumes = [dict(p) for p in last['played']]
            bad = execute(w, init, consumes)
            out.append(({'mode': init['mode'], 'order': list(init['order']), 'failing': sorted(init['failing']),
                         'edited': sorted(init['edited']), 'limit': init['limit'], 'consume': [p['stream'] for p in consumes],
                         'played': consumes}, bad))
    finally:
        w.close()
    return cassette, out


def run(rep, tier, seed):
    rep.rule = ('behaviours = complete paths of the TLC state graph of spec/Studio.tla: recordings over categories A, AB, A_B '
                '(one flagged incomplete), explicit id lists = every ordering of every non-empty subset, or lookup-driven '
                'selection with limits, tuner failing for any subset of categories, result streams consumed in every '
                'interleaving; each path is executed on the real PlaybackStudio (in-process equalizer) over the in-memory, '
                'file-based and S3 cassettes with tuning functions that log the category they were created for; oracle = '
                'per-stream recording ids and the logged category of playback function / extractor / comparator. '
                'non-trivial = at least two streams interleaved or a failing tuner; distinct = path')
    rep.assumptions = ['in-process comparison (the dedicated-process path is C08/C13)']
    rnd = random.Random(seed + 19)
    quick = tier == 'quick'
    n = 4 if quick else 5
    cap = 8000 if quick else 60000
    with tlc.Scratch() as s:
        catof = Raw(mc.tla(tuple(CATOF[:n])))
        base = dict(Cats=set(CATOF[:n]), CatOf=catof, Incomplete=INCOMPLETE, Limits={0, 1}, MaxEdited=1, SharedTuning=False)
        mc.write_mc(s, 'Studio', 'MC_C19_shared', dict(base, SharedTuning=True), invariants=INVS)
        r = tlc.run_tlc(s, 'MC_C19_shared', 'MC_C19_shared.cfg')
        rep.add_tlc('design variant: tuning looked up when a stream is advanced', r)
        rep.extra['design_counterexample'] = {'variant': 'SharedTuning', 'tlc_violation': r.violation}
        if r.violation != 'OwnTuning':
            raise tlc.TLCError('the SharedTuning variant should violate OwnTuning')
        mc.write_mc(s, 'Studio', 'MC_C19', base, invariants=INVS)
        r, g = tlc.dump_graph(s, 'MC_C19', 'MC_C19.cfg', max_states=2000000, timeout=3000)
        rep.add_tlc('Studio (%d recordings)' % n, r, obligations=INVS)
        if r.violation:
            rep.violation({'summary': 'TLC: %s violated on Studio' % r.violation, 'signature': 'tlc:%s' % r.violation})
            return
        total, _ = g.count_paths()
        if total <= cap:
            paths = list(g.iter_all_paths())
            rep.exhaustive = True
        else:
            paths = g.edge_cover_paths(rnd)
            if len(paths) > cap:
                rnd.shuffle(paths)
                paths = paths[:cap]
            seen = set(map(tuple, paths))
            tries = 0
            while len(paths) < cap and tries < 3 * cap:
                tries += 1
                p = tuple(g.random_path(rnd))
                if p not in seen:
                    seen.add(p)
                    paths.append(list(p))
        for p in paths:
            g.states[p[0]]
            g.states[p[-1]]
        rep.extra['generating'] = {'graph_states': len(g.states), 'complete_paths': total, 'paths_replayed': len(paths)}
        _G['g'] = g
        tasks = []
        for cas in ('memory', 'file', 's3'):
            sub = paths if cas == 'memory' or not quick else paths[::4]
            for k in range(0, len(sub), 80):
                tasks.append((cas, n, sub[k:k + 80]))
        ctx = mp.get_context('fork')
        with ctx.Pool(min(tlc.NCPU, len(tasks))) as pool:
            for cas, out in pool.imap_unordered(_work, tasks):
                for sc, bad in out:
                    rep.traces += 1
                    rep.evaluations += 1
                    streams = sc['consume']
                    inter = any(streams[k] != streams[k + 1] and streams[k] in streams[k + 1:] for k in range(len(streams) - 1))
                    rep.note_behaviour((cas, repr(sc)), inter or bool(sc['failing']))
                    if len(rep.samples) < 3 and inter:
                        rep.sample(dict(sc, cassette=cas))
                    if bad:
                        rep.violation({'summary': '[%s] %s | mode=%s order=%s failing=%s limit=%s consumption=%s'
                                                  % (cas, bad[0][:250], sc['mode'], sc['order'], sc['failing'] + ['edited:'] + sc['edited'], sc['limit'], sc['consume']),
                                       'signature': None, 'all': bad[:5]}, replay={'kind': 'studio', 'cassette': cas, 'n': n, 'scenario': sc})


def replay(rep, body):
    rp = body['replay']
    w = World(rp['cassette'], rp['n'])
    try:
        sc = rp['scenario']
        bad = execute(w, sc, sc['played'])
    finally:
        w.close()
    for b in bad:
        print('VIOLATING', b)
    return not bad
