"""C14 Metadata filter matching is total and means what is documented."""
import random
import shutil
import tempfile

from ..simplecheck import dump_states


def py_value(v, variant=0):
    ty = v['ty']
    if ty == 'none':
        return None
    if ty == 'bool':
        return bool(v['n'])
    if ty == 'num':
        if v['n'] % 10 == 0:
            return float(v['n'] // 10) if variant % 2 else v['n'] // 10
        return v['n'] / 10.0
    if ty == 'str':
        return ''.join(v['s'])
    if ty == 'dict':
        if v['n'] == 3:     # plain dicts that merely look like an operator object (one of its two keys only)
            return {'operator': '<', 'threshold': 3}
        if v['n'] == 4:
            return {'value': 10, 'unit': 's'}
        return {'k': v['n'], 'nested': {'z': [v['n']]}}
    raise ValueError(ty)


def py_pattern(p):
    out = []
    for tok in p:
        t = tok['t']
        if t == 'lit':
            out.append(tok['c'])
        elif t == 'any':
            out.append('?')
        elif t == 'star':
            out.append('*')
        elif t == 'set':
            out.append('[' + ''.join(sorted(tok['cs'])) + ']')
        elif t == 'nset':
            out.append('[!' + ''.join(sorted(tok['cs'])) + ']')
    return ''.join(out)


def py_filter(f, variant=0):
    k = f['k']
    if k == 'atom':
        return py_value(f['x'], variant)
    if k == 'pat':
        return py_pattern(f['p'])
    if k == 'op':
        return {'operator': f['op'], 'value': py_value(f['x'], variant)}
    if k == 'list':
        return [py_filter(a, variant) for a in f['alts']]
    raise ValueError(k)


def _real_match(flt, v, variant):
    from playback.tape_cassette import TapeCassette
    meta = {'other': 1}
    if v['ty'] != 'absent':
        meta['key'] = py_value(v, variant)
    try:
        return TapeCassette.match_against_recorded_metadata({'key': flt}, meta)
    except Exception as ex:  # noqa
        return 'raised %s' % type(ex).__name__


def run(rep, tier, seed):
    rep.rule = ('every <<filter, value>> pair of the universe of spec/MetaFilter.tla (atoms None/bool/int/float/str/dict, '
                'shell patterns with * ? [seq] [!seq], operator objects = < <= > >= and an unknown operator, lists of <= 2 '
                'alternatives nested once; values of every JSON type or absent) is evaluated on the real matcher directly '
                'and through iter_recording_ids of the in-memory, file-based and S3(fake bucket) cassettes; oracle = res of '
                'the specification (Python equality / ordering rules transcribed); plus seeded pairs beyond the universe '
                '(random strings and numbers with the same shapes), and lists of alternatives grown / shrunk in place between two '
                'lookups. non-trivial = pair whose filter is not a plain atom; '
                'distinct = pair')
    rep.assumptions = ['fnmatch on POSIX (case-sensitive)', 'S3 filters JSON-decoded metadata; the universe contains JSON types only']
    g, r = dump_states(rep, 'MetaFilter', 'MetaFilter.cfg', name='MetaFilter (all pairs, 11 documentation lemmas)')
    if g is None:
        return
    pairs = [g.states[n] for n in g.states]
    rep.exhaustive = True
    bad = 0
    for st in pairs:
        for variant in (0, 1):
            flt = py_filter(st['f'], variant)
            got = _real_match(flt, st['v'], variant)
            rep.evaluations += 1
            if got is not bool(st['res']) and not (got == bool(st['res']) and isinstance(got, bool)):
                bad += 1
                rep.violation({'summary': 'matcher(%r, %s) = %r, documented: %r'
                                          % (flt, 'absent' if st['v']['ty'] == 'absent' else repr(py_value(st['v'], variant)),
                                             got, bool(st['res'])),
                               'signature': None},
                              replay={'kind': 'pair', 'f': repr(flt), 'v': repr(st['v']), 'variant': variant})
        rep.note_behaviour((repr(st['f']), repr(st['v'])), st['f']['k'] != 'atom')
        rep.traces += 1
    rep.sample({'filter': repr(py_filter(pairs[0]['f'])), 'value': repr(pairs[0]['v']), 'res': pairs[0]['res']})
    rep.sample({'filter': repr(py_filter(pairs[len(pairs) // 2]['f'])), 'value': repr(pairs[len(pairs) // 2]['v']),
                'res': pairs[len(pairs) // 2]['res']})
    edited_filters(rep, pairs)
    through_cassettes(rep, pairs)
    beyond_universe(rep, seed, 4000 if tier == 'quick' else 200000)


def edited_filters(rep, pairs):
    """What a filter means is a function of the filter and the value *now*: a list of alternatives that the caller grows
    or shrinks in place between two lookups is matched as it stands at each lookup (oracle: res of the specification for
    the one-alternative list, the two-alternative list, and the remaining alternative)."""
    table = {}
    for st in pairs:
        if st['f']['k'] == 'list':
            table[(repr(list(st['f']['alts'])), repr(st['v']))] = bool(st['res'])
    n = 0
    for st in pairs:
        f, v = st['f'], st['v']
        if f['k'] != 'list' or len(f['alts']) != 2:
            continue
        a1, a2 = list(f['alts'])
        steps = [('[a1]', [a1]), ('[a1, a2] (a2 appended in place)', [a1, a2]), ('[a2] (a1 removed in place)', [a2])]
        if any((repr(alts), repr(v)) not in table for _n, alts in steps):
            continue
        live = [py_filter(a1)]
        for i, (label, alts) in enumerate(steps):
            if i == 1:
                live.append(py_filter(a2))
            elif i == 2:
                del live[0]
            got = _real_match(live, v, 0)
            exp = table[(repr(alts), repr(v))]
            rep.evaluations += 1
            n += 1
            if got is not exp:
                rep.violation({'summary': 'matcher(%r, %s) = %r after the list was changed in place to %s, documented: %r'
                                          % (live, 'absent' if v['ty'] == 'absent' else repr(py_value(v)), got, label, exp),
                               'signature': None}, replay={'kind': 'pair', 'f': repr(live), 'v': repr(v), 'variant': 0})
                break
    rep.extra['filters_edited_in_place'] = {'lookups': n}


def through_cassettes(rep, pairs):
    """iter_recording_ids on every cassette over recordings with heterogeneous metadata: never aborts, exact set."""
    from playback.tape_cassettes.in_memory.in_memory_tape_cassette import InMemoryTapeCassette
    from playback.tape_cassettes.file_based.file_based_tape_cassette import FileBasedTapeCassette
    from ..fake_boto3 import make_s3_cassette
    values = []
    for st in pairs:
        if st['v'] not in values:
            values.append(st['v'])
    filters = []
    for st in pairs:
        if st['f'] not in filters:
            filters.append(st['f'])
    expected = {}
    for st in pairs:
        expected[(repr(st['f']), repr(st['v']))] = bool(st['res'])
    tmp = tempfile.mkdtemp(prefix='pbverif-c14-')
    try:
        cassettes = {'memory': InMemoryTapeCassette(), 'file': FileBasedTapeCassette(tmp),
                     's3': make_s3_cassette(key_prefix='p', read_only=False)}
        for cname, cas in cassettes.items():
            ids = {}
            for v in values:
                r = cas.create_new_recording('Cat')
                r.set_data('k', 1)
                meta = {'other': 1}
                if v['ty'] != 'absent':
                    meta['key'] = py_value(v)
                r.add_metadata(meta)
                cas.save_recording(r)
                ids[r.id] = v
            for f in filters:
                flt = py_filter(f)
                rep.evaluations += 1
                try:
                    got = set(cas.iter_recording_ids('Cat', metadata={'key': flt}))
                except Exception as ex:  # noqa
                    got = 'raised %s' % type(ex).__name__
                exp = set(i for i, v in ids.items() if expected[(repr(f), repr(v))])
                if got != exp:
                    rep.violation({'summary': '%s cassette: lookup with filter %r returned %s, documented matches: %d'
                                              % (cname, flt, got if isinstance(got, str) else '%d ids' % len(got), len(exp)),
                                   'signature': None}, replay={'kind': 'lookup', 'cassette': cname, 'f': repr(flt)})
    finally:
        shutil.rmtree(tmp, ignore_errors=True)


def beyond_universe(rep, seed, n):
    """Random strings / numbers with the same shapes; oracle = the same rules evaluated in Python."""
    import fnmatch as _fn
    rnd = random.Random(seed + 14)

    def rvalue():
        k = rnd.randrange(8)
        if k == 0:
            return None
        if k == 1:
            return rnd.choice([True, False])
        if k == 2:
            return rnd.randrange(-5, 6)
        if k == 3:
            return rnd.choice([0.5, 1.0, 2.5, -1.5, 1e9])
        if k in (4, 5):
            return ''.join(rnd.choice('ab1*?[]!x') for _ in range(rnd.randrange(4)))
        if k == 6:
            return rnd.choice([{'k': rnd.randrange(3)}, {'operator': rnd.choice(['<', '=', 'in', ['x']]), 'limit': 1},
                               {'value': rnd.randrange(3)}])
        return [1, 2]

    def rfilter(depth=0):
        k = rnd.randrange(6 if depth < 2 else 4)
        if k in (0, 1):
            return rvalue()
        if k in (2, 3):
            return {'operator': rnd.choice(['=', '<', '<=', '>', '>=', '!=', 'in', '']), 'value': rvalue()}
        return [rfilter(depth + 1) for _ in range(rnd.randrange(3))]

    def doc(flt, present, val):
        rec = val if present else None
        if isinstance(flt, list):
            return any(doc(a, present, val) for a in flt)
        if isinstance(flt, dict) and 'operator' in flt and 'value' in flt:
            op, x = flt['operator'], flt['value']
            try:
                if op == '=':
                    return bool(rec == x)
                if op == '<':
                    return bool(rec < x)
                if op == '<=':
                    return bool(rec <= x)
                if op == '>':
                    return bool(rec > x)
                if op == '>=':
                    return bool(rec >= x)
            except TypeError:
                return False
            return False
        if rec is None:
            return flt is None
        if isinstance(flt, str):
            return isinstance(rec, str) and _fn.fnmatch(rec, flt)
        return bool(rec == flt)

    from playback.tape_cassette import TapeCassette
    for i in range(n):
        flt = rfilter()
        present = rnd.random() < 0.85
        val = rvalue()
        meta = {'key': val} if present else {}
        try:
            got = TapeCassette.match_against_recorded_metadata({'key': flt}, meta)
        except Exception as ex:  # noqa
            got = 'raised %s' % type(ex).__name__
        exp = doc(flt, present, val)
        rep.evaluations += 1
        if got is not exp and not (isinstance(got, bool) and got == exp):
            rep.violation({'summary': 'matcher(%r, %s) = %r, documented: %r' % (flt, repr(val) if present else 'absent', got, exp),
                           'signature': None}, replay={'kind': 'random', 'seed': seed, 'index': i})
    rep.extra['beyond_universe_pairs'] = n


def replay(rep, body):
    from ..evidence import rerun_and_match
    return rerun_and_match(run, body)
