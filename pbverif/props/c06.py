"""C06 Input lookup keys identify calls by alias and captured argument values only."""
import json
import os
import shutil
import subprocess
import sys
import tempfile

from .. import mc, tlc
from ..mc import Raw
from ..keyuniverse import build, small

K1 = 'set-of-hash-randomised-elements-in-captured-argument'
K2 = 'set-with-colliding-element-hashes-in-captured-argument'


def _speckey(k):
    return json.dumps([k[0], list(k[1]), [list(p) for p in k[2]]])


def captured_tokens(key):
    return set(key[1]) | set(p[1] for p in key[2])


def run(rep, tier, seed):
    rep.rule = ('states of spec/InputKey.tla = calls (alias plain / resolver-formatted with two parameters, static / '
                'instance, each of x, y, k passed positionally / by keyword / omitted, capture selection all / none / by '
                'position / by name / mixed, value tokens from a universe of structurally distinct tree-shaped values '
                '(numbers, strings, bytes, None, booleans, lists, tuples, sets, string-keyed dicts, plain objects, depth '
                '<= 2, incl. type-confusable pairs 1/True/1.0, list/tuple, dict/object), presentation index = dict and '
                'keyword insertion order, set construction order); the real key of every call is obtained through the '
                'public path (record one call, read the recording\'s keys); the partition of calls by real key must '
                'equal the partition by SpecKey, in this process and in subprocesses with other PYTHONHASHSEED values. '
                'non-trivial = call with a captured container or object; distinct = state')
    rep.assumptions = ['position vs keyword passing is part of the call (the replayed code calls the way the recorded code did)']
    level = 'quick' if tier == 'quick' else 'thorough'
    u = build(level)
    toks = sorted(u)
    if tier == 'quick':   # a seeded subset of the universe keeps the quick tier around a minute
        import random as _r
        rnd = _r.Random(seed)
        must = ['txt_alias_new', 'txt_alias_plain', 'set_i1_i9', 'set_ss_st', 'set_ss_st_uni', 'set_ints', 'long_str', 'long_str2', 'very_long_str', 'very_long_str2', 'long_list', 'deep_dict', 'deep_obj', 'deep_obj_other', 'i1', 'true', 'f1', 'list_i1', 'tuple_i1', 'plain_a1',
                                                                   'other_a1', 'dict_a1', 'dict_dict', 'list_dict2']
        rest = [t for t in toks if t not in must]
        rnd.shuffle(rest)
        toks = sorted(set(must + rest[:24]))
    with tlc.Scratch() as s:
        consts = dict(ValsX=set(toks), ValsS=set(small()), Pres={1, 2})
        invs = ['PresentationIndependent', 'UncapturedIgnored', 'AliasInKey', 'NoKeyIffUnbuildable']
        mc.write_mc(s, 'InputKey', 'MC_C06', consts, invariants=invs)
        r, g = tlc.dump_graph(s, 'MC_C06', 'MC_C06.cfg', max_states=3000000, timeout=3000)
        rep.add_tlc('InputKey universe (%d value tokens)' % len(toks), r, obligations=invs)
        if r.violation:
            rep.violation({'summary': 'TLC: %s violated on InputKey' % r.violation, 'signature': 'tlc:%s' % r.violation})
            return
        states = [g.states[n] for n in g.states]
    rep.exhaustive = True
    calls = [dict(st['call']) for st in states]
    # one decorated function = one (capture selection, static) configuration: keys are compared per function
    fn_of = ['%s/%s|' % (st['call']['capture'], 'static' if st['call']['static'] else 'instance') for st in states]
    spec = [fn_of[i] + _speckey(st['key']) for i, st in enumerate(states)]
    sens = [bool(captured_tokens(st['key']) & set(t for t in toks if u[t]['hash_sensitive'])) for st in states]
    ins = [bool(captured_tokens(st['key']) & set(t for t in toks if u[t]['insertion_sensitive'])) for st in states]
    from ..keyproc import compute_keys
    runs = {'this-process': [fn_of[i] + k for i, k in enumerate(compute_keys(calls, level))]}
    tmp = tempfile.mkdtemp(prefix='pbverif-c06-')
    try:
        with open(os.path.join(tmp, 'calls.json'), 'w') as fh:
            json.dump(calls, fh)
        seeds = [1, 2] if tier == 'quick' else [1, 2, 3, 77, 12345, 99991, 4242]
        procs = []
        for hs in seeds:
            env = dict(os.environ)
            env['PYTHONHASHSEED'] = str(hs)
            env['PYTHONPATH'] = os.pathsep.join([p for p in sys.path if p])
            outp = os.path.join(tmp, 'keys-%d.json' % hs)
            procs.append((hs, outp, subprocess.Popen([sys.executable, '-m', 'pbverif.keyproc', level,
                                                      os.path.join(tmp, 'calls.json'), outp], env=env,
                                                     cwd=os.path.dirname(os.path.dirname(os.path.dirname(__file__))))))
        for hs, outp, p in procs:
            if p.wait() != 0:
                raise RuntimeError('key subprocess with PYTHONHASHSEED=%d failed' % hs)
            with open(outp) as fh:
                runs['PYTHONHASHSEED=%d' % hs] = [fn_of[i] + k for i, k in enumerate(json.load(fh))]
    finally:
        shutil.rmtree(tmp, ignore_errors=True)
    n = len(calls)
    rep.traces += n
    rep.evaluations += n * len(runs)
    for i in range(n):
        rep.note_behaviour(i, any(not t.startswith(('i', 'f', 's', 'b', 'n', 't')) or '_' in t for t in captured_tokens(states[i]['key'])))
    rep.sample({'call': calls[0], 'SpecKey': spec[0], 'real_key': runs['this-process'][0]})
    rep.sample({'call': calls[n // 2], 'SpecKey': spec[n // 2], 'real_key': runs['this-process'][n // 2]})
    k1_hits = 0
    k2_hits = 0
    # (1) inside every process: same SpecKey <=> same real key
    for pname, keys in runs.items():
        by_spec = {}
        by_real = {}
        for i in range(n):
            by_spec.setdefault(spec[i], set()).add(keys[i])
            by_real.setdefault(keys[i], set()).add(spec[i])
        for i in range(n):
            unbuildable = states[i]['key'][0] == 'nokey'
            if unbuildable and keys[i] != fn_of[i] + 'NOKEY:[]':
                rep.violation({'summary': '[%s] call %r omits a positionally captured argument, no key can be built for it, yet '
                                          'the recording holds %s' % (pname, calls[i], keys[i]), 'signature': None},
                              replay={'kind': 'call', 'call': calls[i]})
            elif not unbuildable and 'NOKEY' in keys[i]:
                rep.violation({'summary': '[%s] call %r produced no single input key: %s' % (pname, calls[i], keys[i]), 'signature': None},
                              replay={'kind': 'call', 'call': calls[i]})
        for sk, ks in by_spec.items():
            if len(ks) > 1:
                idx = [i for i in range(n) if spec[i] == sk]
                if all(sens[i] for i in idx):
                    k1_hits += 1
                    continue
                if all(sens[i] or ins[i] for i in idx):
                    k2_hits += 1
                    rep.violation({'summary': '[%s] equal sets built in a different order inside a captured argument got %d '
                                              'different keys: %s -> %s' % (pname, len(ks), sk, sorted(ks)[:2]),
                                   'signature': K2}, replay={'kind': 'samekey', 'spec': sk})
                    continue
                rep.violation({'summary': '[%s] structurally equal captured arguments got %d different keys: %s -> %s'
                                          % (pname, len(ks), sk, sorted(ks)[:2]), 'signature': None},
                              replay={'kind': 'samekey', 'spec': sk})
        for rk, sks in by_real.items():
            if len(sks) > 1 and 'NOKEY' not in rk:
                rep.violation({'summary': '[%s] different calls share the key %r: %s' % (pname, rk[:120], sorted(sks)[:3]),
                               'signature': None}, replay={'kind': 'collision', 'key': rk})
    # (2) across processes: the key of a call does not depend on the hash seed
    names = sorted(runs)
    for i in range(n):
        ks = set(runs[p][i] for p in names)
        if len(ks) > 1:
            if sens[i]:
                k1_hits += 1
                rep.violation({'summary': 'key of a call with a set of strings in a captured argument differs between hash seeds: %s'
                                          % sorted(ks)[:2], 'signature': K1}, replay={'kind': 'hashseed', 'call': calls[i]})
            else:
                rep.violation({'summary': 'key of call %r differs between processes / hash seeds: %s' % (calls[i], sorted(ks)[:2]),
                               'signature': None}, replay={'kind': 'hashseed', 'call': calls[i]})
    rep.extra['processes'] = names
    rep.extra['calls'] = n
    rep.extra['hash_sensitive_calls'] = sum(sens)
    rep.extra['known_finding_hits'] = k1_hits
    rep.extra['insertion_sensitive_calls'] = sum(ins)
    rep.extra['known_finding_K2_hits'] = k2_hits
    fallback_lookups(rep, level)


def fallback_lookups(rep, level):
    """Lookup side of the key: a replaying input declared under a *new* alias with the old alias as fallback must find what
    an input declared under the old alias recorded for the same captured arguments - the key looked up for a fallback alias
    is the key of that alias (InputKey.tla: SpecKey([call EXCEPT !.alias = fallback])), whatever the arguments contain -
    and must not find what was recorded for other arguments."""
    import logging
    from playback.tape_recorder import TapeRecorder, CapturedArg
    from playback.tape_cassettes.in_memory.in_memory_tape_cassette import InMemoryTapeCassette
    from playback import exceptions as pbexc
    from ..keyuniverse import build
    logging.disable(logging.CRITICAL)
    u = build(level)
    toks = [t for t in ('txt_alias_new', 'txt_alias_plain', 'dict_alias_key', 'i1', 'true', 'ss', 'dict_a1', 'plain_a1',
                        'list_i1_ss', 'set_ints', 'deep_dict', 'long_str') if t in u]
    n = 0
    for capname, ca in (('all', None), ('posx', [CapturedArg(1, 'x')]), ('namek', [CapturedArg(None, 'k')])):
        for fb_form in ('list', 'callable'):
            cassette = InMemoryTapeCassette()
            tr = TapeRecorder(cassette)
            tr.enable_recording()
            box = {}

            class Op(object):
                @tr.operation()
                def execute(self, fn, args, kwargs):
                    return fn(self, *args, **kwargs)

                @tr.intercept_input('the.alias.plain', capture_args=ca)
                def old(self, x=None, k=None):
                    return box['answer']

                @tr.intercept_input('the.alias.new', capture_args=ca,
                                    fallback_aliases=(['the.alias.gone', 'the.alias.plain'] if fb_form == 'list'
                                                      else (lambda *a, **kw: ['the.alias.gone', 'the.alias.plain'])))
                def new(self, x=None, k=None):
                    return 'live value (must not be seen in a replay)'
            import pbverif.opclasses as oc
            Op.__module__ = oc.__name__
            Op.__qualname__ = Op.__name__ = 'KeyFallbackOp'
            oc.KeyFallbackOp = Op
            for t in toks:
                def call(pres):
                    v = u[t]['pres'][pres % len(u[t]['pres'])]()
                    return ((v,), {}) if capname != 'namek' else ((), {'k': v})
                box['answer'] = ['answer for', t]
                a, kw = call(0)
                Op().execute(Op.old, a, kw)
                rid = cassette.get_last_recording_id()
                n += 1
                a2, kw2 = call(1)
                try:
                    pb = tr.play(rid, lambda recording: Op().execute(Op.new, a2, kw2))
                    got = [o.value for o in pb.playback_outputs if 'operation' in o.key]
                    ok = bool(got) and got[0]['args'][0] == ['answer for', t]
                    err = repr(got)[:200]
                except Exception as ex:  # noqa
                    ok, err = False, repr(ex)[:300]
                if not ok:
                    rep.violation({'summary': 'fallback lookup (capture %s, fallbacks as %s): input renamed from the.alias.plain to '
                                              'the.alias.new does not find what was recorded for argument %s: %s'
                                              % (capname, fb_form, t, err), 'signature': None},
                                  replay={'kind': 'fallback', 'capture': capname, 'form': fb_form, 'token': t})
                # another argument must not be answered from this recording
                other = 'i1' if t != 'i1' else 'ss'
                vo = u[other]['pres'][0]()
                ao, kwo = (((vo,), {}) if capname != 'namek' else ((), {'k': vo}))
                try:
                    pb = tr.play(rid, lambda recording: Op().execute(Op.new, ao, kwo))
                    got = [o.value for o in pb.playback_outputs if 'operation' in o.key]
                    rep.violation({'summary': 'fallback lookup (capture %s): a call with argument %s was answered from the recording of '
                                              'argument %s: %r' % (capname, other, t, got), 'signature': None},
                                  replay={'kind': 'fallback', 'capture': capname, 'form': fb_form, 'token': t})
                except pbexc.RecordingKeyError:
                    pass
                except Exception as ex:  # noqa
                    if 'RecordingKeyError' not in repr(ex):
                        rep.violation({'summary': 'fallback lookup (capture %s): replay of another argument raised %r' % (capname, ex),
                                       'signature': None}, replay={'kind': 'fallback', 'capture': capname, 'form': fb_form, 'token': t})
    rep.evaluations += 2 * n
    rep.extra['fallback_lookups'] = n


def replay(rep, body):
    from ..evidence import rerun_and_match
    print(json.dumps(body['what'])[:800])
    return rerun_and_match(run, body)
