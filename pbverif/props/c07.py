"""C07 Stored recordings round-trip through every cassette."""
from ..storebind import StoreCheck, consts, METAS_SMALL, CONFIGS, replay_file

CATS = {'roundtrip', 'unknown', 'save', 'aliasing'}   # aliasing: a later fetch is not 'as saved' because an earlier fetch was edited


def run(rep, tier, seed):
    rep.rule = ('behaviours = complete paths of the TLC state graph of spec/Store.tla: histories of saves (other recordings '
                'before and after) interleaved with fetch by id, fetch of the metadata alone, and fetch of ids that were '
                'never saved (fresh, a strict prefix of a saved id, a saved id with a suffix, another category), and copies of a '
                'stored recording saved with added metadata into a sibling cassette (this one is unchanged); applied to '
                'the in-memory, file-based and S3 cassettes (key prefix "", "p", "p/q"); recordings are concretised with '
                'adversarial key texts (quotes, unicode, separators, JSON metacharacters, texts that look like playback\'s '
                'own keys) and values / metadata from the self-validated faithful pool including shared sub-objects; '
                'oracle = same id, same key set, equal data with equal types, equal metadata, metadata alone == metadata '
                'of the full recording, NoSuchRecording for unknown ids. non-trivial = path with a fetch; distinct = '
                'event sequence (values vary with the seed)')
    rep.assumptions = ['value fidelity is sampled (encode/decode dimension); the protocol is exhaustive within the bounds',
                       'values in the serializer\'s faithful domain: every pool value round-trips alone and nested one level']
    chk = StoreCheck(rep, tier, seed, CATS, ['get', 'getmeta', 'unknown', 'mutate', 'promote'])
    try:
        if tier == 'quick':
            ex = chk.run_config('hist', consts(Cats=['A', 'AB'], Metas=METAS_SMALL[:2], Ops=['get', 'getmeta', 'unknown', 'mutate'],
                                               MaxSaves=2, MaxQueries=2), cap=30000, rich=True)
            chk.run_config('hist3', consts(Cats=['A'], Metas=METAS_SMALL[2:3], Ops=['get', 'getmeta'], MaxSaves=3, MaxQueries=2,
                                           Probes=[False, True]),
                           cap=5000, rich=True)
            # a category that contains the id separator itself
            chk.run_config('slashcat', consts(Cats=['A/B', 'A'], Metas=METAS_SMALL[:1], Ops=['get', 'getmeta', 'unknown'],
                                              MaxSaves=3, MaxQueries=2), cap=5000, rich=True)
            # a stored recording is copied, with added metadata, into a sibling cassette (other prefix of the same bucket,
            # other directory, other in-memory cassette): what this cassette hands out for the id does not change
            chk.run_config('promote', consts(Cats=['A'], Metas=METAS_SMALL[:2], Ops=['get', 'getmeta', 'promote'],
                                             MaxSaves=2, MaxQueries=2), cap=8000, rich=True)
        else:
            chk.run_config('promote', consts(Cats=['A', 'AB'], Metas=METAS_SMALL[:3], Ops=['get', 'getmeta', 'promote', 'mutate'],
                                             MaxSaves=2, MaxQueries=3), cap=40000, rich=True)
            ex = chk.run_config('hist', consts(Cats=['A', 'AB', 'A_B'], Metas=METAS_SMALL[:3], Ops=['get', 'getmeta', 'unknown', 'mutate'],
                                               MaxSaves=2, MaxQueries=2), cap=300000, rich=True, n_seeds=3)
            chk.run_config('hist4', consts(Cats=['A', 'AB'], Metas=METAS_SMALL[2:3], Ops=['get', 'getmeta', 'unknown'],
                                           MaxSaves=4, MaxQueries=2), cap=100000, rich=True, n_seeds=2)
            chk.run_config('probed', consts(Cats=['A', 'AB'], Metas=METAS_SMALL[:2], Ops=['get', 'getmeta', 'unknown'],
                                            MaxSaves=3, MaxQueries=2, Probes=[False, True]), cap=100000, rich=True)
        rep.exhaustive = bool(ex)
    finally:
        chk.close()


def replay(rep, body):
    return replay_file(rep, body, CATS)
