"""C10 Lookup returns exactly the matching recordings, identically on all cassettes."""
from ..storebind import StoreCheck, consts, METAS_SMALL, ALL_FILTERS, CONFIGS, replay_file

CATS = {'lookup'}


def run(rep, tier, seed):
    rep.rule = ('behaviours = complete paths of the TLC state graph of spec/Store.tla: a history of saves over categories '
                'that are prefixes of one another or contain underscores (A, AB, A_B, B) with metadata over three typed keys '
                '(present / absent / None), then a lookup (category x named filter from MetaFilterOps x limit x ordered/random) '
                'or the default skip-incomplete lookup; each path is applied to the in-memory, file-based and S3 cassettes '
                '(S3 with key prefix "", "p", "p/q", fake bucket); oracle: duplicate-free subset of the model\'s match set, '
                'exactly min(limit, matches) ids, each fetchable - hence all cassettes agree when no limit is given. '
                'non-trivial = path with a lookup; distinct = event sequence')
    rep.assumptions = ['limit=0 is left open (treated as no limit by the model only when the code does)',
                       'which min(limit, matches) ids are returned is left open']
    chk = StoreCheck(rep, tier, seed, CATS, ['list', 'default'])
    try:
        pop = [(c, m) for c in ['A', 'AB', 'A_B', 'B'] for m in METAS_SMALL]
        if tier == 'quick':
            ex = chk.run_config('hist', consts(Cats=['A', 'AB', 'A_B'], Metas=METAS_SMALL[:2] + METAS_SMALL[4:5],
                                               FilterNames=['none', 'k1a'], Limits=[0, 1], Randoms=[False, True],
                                               Ops=['list', 'default'], MaxSaves=2, MaxQueries=1), cap=30000)
            chk.run_config('population', consts(Cats=['A', 'AB', 'A_B', 'B'], Metas=METAS_SMALL, FilterNames=ALL_FILTERS,
                                                Limits=[0, 1, 2, 5], Randoms=[False, True], Ops=['list', 'default'],
                                                MaxSaves=len(pop), MaxQueries=1, Population=pop), cap=30000)
            chk.run_config('resave', consts(Cats=['A', 'AB'], Metas=METAS_SMALL[:2], FilterNames=['none', 'skipinc'], Limits=[0, 1, 2],
                                            Randoms=[False], Ops=['list', 'default', 'resave'], MaxSaves=2, MaxQueries=2), cap=20000)
            # lookup, re-save with other metadata (the incomplete flag changes, a key appears), lookup again; a save that
            # fails inside the cassette in between
            chk.run_config('relook', consts(Cats=['A'], Metas=[METAS_SMALL[1], METAS_SMALL[3], METAS_SMALL[4]],
                                            FilterNames=['k1a', 'skipinc'], Limits=[0], Randoms=[False],
                                            Ops=['list', 'resave', 'failsave'], MaxSaves=1, MaxQueries=3), cap=20000)
            rep.exhaustive = bool(ex)
        else:
            ex = chk.run_config('hist', consts(Cats=['A', 'AB', 'A_B'], Metas=METAS_SMALL, FilterNames=ALL_FILTERS,
                                               Limits=[0, 1, 2], Randoms=[False, True], Ops=['list', 'default'],
                                               MaxSaves=2, MaxQueries=1), cap=60000)
            chk.run_config('resave', consts(Cats=['A', 'AB'], Metas=METAS_SMALL[:3], FilterNames=['none', 'skipinc', 'k1a'],
                                            Limits=[0, 1, 2], Randoms=[False, True], Ops=['list', 'default', 'resave', 'get'],
                                            MaxSaves=2, MaxQueries=3), cap=100000)
            chk.run_config('hist3', consts(Cats=['A', 'AB', 'A_B'], Metas=METAS_SMALL[:3], FilterNames=['none', 'k1a', 'skipinc'],
                                           Limits=[0, 1, 2], Randoms=[False], Ops=['list', 'default'], MaxSaves=3,
                                           MaxQueries=1), cap=60000)
            chk.run_config('population', consts(Cats=['A', 'AB', 'A_B', 'B'], Metas=METAS_SMALL, FilterNames=ALL_FILTERS,
                                                Limits=[0, 1, 2, 5, 30], Randoms=[False, True], Ops=['list', 'default'],
                                                MaxSaves=len(pop), MaxQueries=2, Population=pop), cap=15000, n_seeds=1)
            rep.exhaustive = bool(ex)
    finally:
        chk.close()


def replay(rep, body):
    return replay_file(rep, body, CATS)
