"""C04 Recording is transparent to the recorded service (sequential part: programs x fault placements).

The schedule part (worker threads interleaved with discards) lives in props/c04_threads and is merged here."""
from ..recprops import RecorderCheck, consts, K, replay_file

CATS = {'seen', 'bodies', 'passthrough'}
INVS = ['TypeOK', 'Transparent', 'DisabledPassThrough', 'IdleClean', 'FinalisedAtMostOnce']


def nontrivial(beh):
    for s in beh:
        e = s['ev']
        if e['step']['fault'] != 'none' or e['step']['body'] not in ('', 'plain') or e['kind'] in ('discard', 'force') \
                or e['saveFails'] or e['extractor'] in ('raises', 'junk') or e['decision'] in ('drop', 'discarded'):
            return True
    return False


def gen_consts(steps, **over):
    c = dict(InCalls=[('ia1', 1), ('ia2', 1), ('ia2', 2)], OutAliases=['oa2'], Vals=['v1'],
             InFaults=['none', 'keyFail', 'prepFail', 'copyFail'], OutFaults=['none', 'prepFail'],
             Bodies=['plain', 'discards', 'forces', 'nestSame', 'nestOther'], InnerCall=('ia1', 2),
             OutResults=[('val', 'v1'), ('exc', 'E1')],
             Ctl=['discard', 'force'], Ends=['ret', 'raise'],
             Classes=[K('K1', copyOn=True), K('K2', rate='frac'), K('K3', skipped=True)],
             Draws=['low', 'high'], Extractors=['none', 'raises', 'junk'], SaveFails=[False, True],
             StartEnabled=[True, False], MaxSteps=steps, MaxRuns=1, MaxRecs=1)
    c.update(over)
    return consts(**c)


def signature(bad, beh):
    return None


def run(rep, tier, seed):
    rep.rule = ('behaviours = complete paths of the TLC state graph of Recorder.tla restricted to one recorded run: '
                'programs x tolerated fault placements (key cannot be built, data handler raises, copy fails, '
                'extractor raises/returns junk, save raises, discard/force from the operation or from an intercepted '
                'body) x sampling outcomes x enabled/disabled; oracle = same object / same exception object as the '
                'wrapped body produced, each body executed exactly once, no cassette call when pass-through. '
                'non-trivial = at least one fault / discard / force / non-plain body; distinct = event sequence')
    rep.assumptions = ['one operation at a time per recorder',
                       'line-granularity schedules only (see the C04 threads part)']
    chk = RecorderCheck(rep, tier, seed, CATS, nontrivial)
    try:
        if tier == 'quick':
            chk.check('chk', gen_consts(3, Extractors=['none', 'raises']), invariants=INVS)
            chk.check('pinnedF2', gen_consts(2, FixF2=False, InFaults=['none'], OutFaults=['none'],
                                             Classes=[K('K1')], Draws=['low'], Extractors=['none'],
                                             SaveFails=[False], StartEnabled=[True]),
                      invariants=['Transparent'], expect='Transparent')
            ex = chk.generate('gen2', gen_consts(2), cassettes=('memory',), n_conc=1, all_paths=True, cap=45000)
            chk.generate('gen3', gen_consts(3, Classes=[K('K1', copyOn=True)], Draws=['low'], Ctl=['discard'],
                                            Bodies=['plain', 'discards', 'nestOther'], InCalls=[('ia2', 2)],
                                            Extractors=['none'], SaveFails=[False], StartEnabled=[True]),
                         cassettes=('memory',), n_conc=1, sample=3000, cap=6000)
            rep.exhaustive = bool(ex)
        else:
            chk.check('chk', gen_consts(3, OutAliases=['oa1', 'oa2']), invariants=INVS, timeout=3000)
            chk.check('chk4', gen_consts(4, InCalls=[('ia2', 2), ('ia1', 1)], OutAliases=['oa2'], Bodies=['plain', 'discards', 'forces'],
                                        Classes=[K('K1', copyOn=True), K('K2', rate='frac')], Extractors=['none'], SaveFails=[False],
                                        StartEnabled=[True]), invariants=INVS, timeout=3000)
            ex = chk.generate('gen2', gen_consts(2), cassettes=('memory', 'file'), n_conc=4, all_paths=True)
            chk.generate('gen3', gen_consts(3, Classes=[K('K1', copyOn=True), K('K2', rate='frac')],
                                            Bodies=['plain', 'discards', 'forces', 'nestOther'],
                                            InCalls=[('ia2', 2), ('ia1', 1)], Extractors=['none'], SaveFails=[False],
                                            StartEnabled=[True]),
                         cassettes=('memory',), n_conc=2, sample=120000, cap=200000)
            rep.exhaustive = bool(ex)
        from . import c04_threads
        c04_threads.run_part(rep, tier, seed)
    finally:
        chk.close()


def replay(rep, body):
    if body.get('replay', {}).get('kind') == 'threads':
        from . import c04_threads
        return c04_threads.replay(rep, body)
    return replay_file(rep, body, CATS)
