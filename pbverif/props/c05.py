"""C05 A recording is persisted whole or not at all, and finalised exactly once."""
from ..recprops import RecorderCheck, consts, K, replay_file

CATS = {'finalised', 'store_presence', 'store_keys', 'pmissing'}
INVS = ['TypeOK', 'FinalisedAtMostOnce', 'FinalisedOnce', 'NothingBeforeCreate', 'SavedOnlyIfCaptured',
        'ReplayableIfComplete', 'IdleClean']


def nontrivial(beh):
    for s in beh:
        e = s['ev']
        if e['step']['fault'] != 'none' or e['step']['body'] in ('interrupt', 'discards') or e['kind'] == 'discard' \
                or e['saveFails'] or e['decision'] in ('drop', 'discarded') or tuple(e['seen'])[0] == 'int':
            return True
    return False


def gen_consts(steps, **over):
    c = dict(InCalls=[('ia1', 1), ('ia2', 1), ('ia2', 2)], OutAliases=['oa1', 'oa2'], Vals=['v1'],
             InFaults=['none', 'keyFail', 'prepFail'], OutFaults=['none', 'prepFail'],
             Bodies=['plain', 'interrupt', 'discards', 'forces'], OutResults=[('val', 'v1'), ('exc', 'E1'), ('int', 'BI')],
             Ctl=['discard', 'force', 'disable'], Ends=['ret', 'raise', 'interrupt'],
             Classes=[K('K1'), K('K2', rate='frac')], Draws=['low', 'high'], SaveFails=[False, True],
             MaxSteps=steps, MaxRuns=2, MaxRecs=1, Modes=['same'])
    c.update(over)
    return consts(**c)


def runs3_consts():
    """an interrupted / discarded / ordinary operation, then another recorded operation, then a replay of what is stored:
    whatever the first run left behind must not make the second recording incomplete-but-unflagged"""
    return gen_consts(2, MaxRuns=3, MaxRecs=2, InCalls=[('ia2', 1)], OutAliases=['oa2'], Classes=[K('K1')], Draws=['low'],
                      Bodies=['plain', 'interrupt', 'discards'], InFaults=['none', 'prepFail'], OutFaults=['none'],
                      OutResults=[('val', 'v1'), ('int', 'BI'), ('exc', 'E1')], Ctl=['discard'], Ends=['ret', 'interrupt'],
                      SaveFails=[False])


def samefault_consts():
    """the same capture fault (same call, same key) in two successive recorded runs of one recorder, then a replay of what
    is stored: each run is discarded on its own account"""
    return gen_consts(1, MaxRuns=3, MaxRecs=2, InCalls=[('ia2', 1), ('ia1', 1)], OutAliases=['oa2'], Classes=[K('K1')],
                      Draws=['low'], Bodies=['plain'], InFaults=['none', 'prepFail', 'keyFail'], OutFaults=['none', 'prepFail'],
                      OutResults=[('val', 'v1')], Ctl=[], Ends=['ret'], SaveFails=[False])


def forced_zero_consts():
    """a class that is never sampled (rate 0: record on demand) whose recording is forced *after* interceptions have
    already happened: what is saved holds every interception of the run"""
    return gen_consts(3, Classes=[K('K0', rate='zero')], Draws=['low', 'high'], Bodies=['plain', 'forces'], Ctl=['force'],
                      InFaults=['none'], OutFaults=['none'], Ends=['ret'], SaveFails=[False], InCalls=[('ia1', 1), ('ia2', 2)],
                      OutAliases=['oa1'], OutResults=[('val', 'v1')])


def run(rep, tier, seed):
    rep.rule = ('behaviours = root-to-terminal paths of the TLC state graph of Recorder.tla (operation programs x '
                'capture faults x discards x sampling outcomes x termination modes, then a same-program replay of '
                'what was stored; histories with an interrupted / discarded run first, and with the same capture fault in two '
                'successive runs); replayed into the real TapeRecorder over a spy-wrapped cassette. non-trivial = '
                'contains a capture fault, discard, interrupt, failing save, or a sampled-out/discarded decision; '
                'distinct = different event sequence')
    rep.assumptions = ['one operation at a time per recorder', 'enable/disable not toggled during an operation',
                       'the operation does not catch an interrupt-style exception raised inside an intercepted body']
    chk = RecorderCheck(rep, tier, seed, CATS, nontrivial)
    try:
        if tier == 'quick':
            chk.check('chk', gen_consts(3, Vals=['v1', 'v2']), invariants=INVS)
            ex = chk.generate('gen2', gen_consts(2), cassettes=('memory', 'file'), n_conc=1, all_paths=True, cap=60000)
            chk.generate('gen3', gen_consts(3, Classes=[K('K1')], Draws=['low'], InCalls=[('ia2', 1)],
                                            OutAliases=['oa2']),
                         cassettes=('memory', 'async'), n_conc=1, sample=1500)
            chk.generate('gen3runs', runs3_consts(), cassettes=('memory', 'file'), n_conc=1, sample=2000, cap=5000)
            chk.generate('forcedzero', forced_zero_consts(), cassettes=('memory', 'file'), n_conc=1, all_paths=True, cap=20000)
            chk.generate('samefault', samefault_consts(), cassettes=('memory',), n_conc=1, all_paths=True, cap=20000)
            rep.exhaustive = bool(ex)
        else:
            chk.check('chk', gen_consts(4, Vals=['v1', 'v2']), invariants=INVS, timeout=3000)
            chk.check('chk3runs', gen_consts(2, MaxRuns=3, MaxRecs=2, InCalls=[('ia2', 2), ('ia1', 1)], OutAliases=['oa2'], Classes=[K('K1')],
                                            Draws=['low'], OutResults=[('val', 'v1'), ('int', 'BI')]), invariants=INVS, timeout=3000)
            ex = chk.generate('gen2', gen_consts(2), cassettes=('memory', 'file'), n_conc=2, all_paths=True)
            chk.generate('gen3', gen_consts(3), cassettes=('memory',), n_conc=1, all_paths=True, cap=400000)
            chk.generate('gen2async', gen_consts(2), cassettes=('async',), n_conc=1, all_paths=True)
            chk.generate('gen3runs', runs3_consts(), cassettes=('memory', 'file'), n_conc=1, all_paths=True, cap=200000)
            chk.generate('forcedzero', forced_zero_consts(), cassettes=('memory', 'file', 's3'), n_conc=2, all_paths=True, cap=20000)
            chk.generate('samefault', samefault_consts(), cassettes=('memory', 'file'), n_conc=2, all_paths=True, cap=40000)
            rep.exhaustive = bool(ex)
    finally:
        chk.close()
    # direction B: the repository's own recorder tests under the guarded hooks, validated by RecorderTrace.tla
    from .. import suitetrace
    events, tail = suitetrace.run_tests(['tests/test_tape_recorder.py', 'tests/studio/test_studio.py'])
    rep.extra['suite_run'] = tail
    suitetrace.validate(rep, 'tests/test_tape_recorder.py + tests/studio/test_studio.py', 'RecorderTrace',
                        suitetrace.recorder_traces(events))
    # ... and harness-driven histories (faults, discards, interrupts, failing replays): TLC behaviour -> real code under
    # the hooks -> hook log -> TLC (RecorderTrace): the loop spec -> code -> spec closed
    harness_traces(rep, seed, 400 if tier == 'quick' else 20000)


def harness_traces(rep, seed, n):
    import json
    import os
    import subprocess
    import sys
    import tempfile
    from .. import suitetrace
    fd, path = tempfile.mkstemp(prefix='pbverif-rectrace-', suffix='.ndjson')
    os.close(fd)
    os.remove(path)
    env = dict(os.environ)
    env['PLAYBACK_VERIF_TRACE'] = path
    env['PYTHONPATH'] = os.pathsep.join([p for p in sys.path if p])
    p = subprocess.run([sys.executable, '-m', 'pbverif.rectrace', str(seed), str(n)], env=env, stdout=subprocess.PIPE,
                       stderr=subprocess.PIPE, universal_newlines=True, timeout=3000,
                       cwd=os.path.dirname(os.path.dirname(os.path.dirname(os.path.abspath(__file__)))))
    events = []
    if os.path.exists(path):
        with open(path) as f:
            for line in f:
                try:
                    events.append(json.loads(line))
                except ValueError:
                    pass
        os.remove(path)
    try:
        out = json.loads(p.stdout.strip().splitlines()[-1])
    except Exception:
        raise RuntimeError('rectrace driver failed: %s %s' % (p.stdout[-300:], p.stderr[-800:]))
    rep.extra['harness_driven_traces'] = out
    suitetrace.validate(rep, 'harness-driven histories (%d behaviours)' % out['behaviours'], 'RecorderTrace',
                        suitetrace.recorder_traces(events))


def replay(rep, body):
    if body.get('replay', {}).get('kind') == 'suite-trace':
        from .. import suitetrace
        return suitetrace.replay_trace(body)
    return replay_file(rep, body, CATS)
