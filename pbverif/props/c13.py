"""C13 Comparison runs always finish and leave no worker behind."""
from . import c08
from .. import eqbind


def judge_c13(sc, keep, res, inproc):
    bad = []
    for v in res['violations']:
        bad.append(v)
    for w, n in res['served'].items():
        if n > sc['rate']:
            bad.append('%s served %d replays, recycle rate is %d' % (w, n, sc['rate']))
    for k, w in enumerate(res['waits'], 1):
        if w > eqbind.TIMEOUT + 1.0 + 0.11:
            bad.append('comparison %d took %.2f (virtual) seconds, time-out is %.1f' % (k, w, eqbind.TIMEOUT))
    exp_n = min(sc['stop'], len(sc['beh']))
    if len(res['out']) != exp_n:
        bad.append('%d comparisons produced, %d expected before the run ends' % (len(res['out']), exp_n))
    # a hung or dead worker is *reported* as a failure (the run continues)
    for o in res['out']:
        b = sc['beh'][o['id'] - 1] if 0 < o['id'] <= len(sc['beh']) else None
        if b in ('hangs', 'exits') and not o['verdict'].startswith('Failure'):
            bad.append('recording %d (%s) was not reported as a failure: %s' % (o['id'], b, o['verdict']))
    return bad


def run(rep, tier, seed):
    c08.run(rep, tier, seed, judge=judge_c13)
    rep.rule = ('same scenarios as C08 (terminal states of spec/Equalizer.tla: hangs and worker deaths at any position incl. '
                'first, last, consecutive; recycle rates 1-3; runs consumed fully, closed early, or dropped by the consumer), '
                'TLC additionally checks Terminates and NoLeak (liveness under weak fairness) and RecycleBound; on the real '
                'Equalizer under the deterministic scheduler: the run ends within the step bound, every worker participant is '
                'done or killed afterwards, tasks served per worker <= rate, virtual time per comparison <= time-out + 1 s, '
                'hung / dead workers are reported as failures. non-trivial = scenario with a hang, death or late answer')
    rep.assumptions = rep.assumptions + ['real processes are exercised only by the thorough-tier smoke run']
    if tier == 'thorough':
        smoke(rep)


def smoke(rep):
    """Real multiprocessing, a handful of scenarios, generous wall-clock bounds (never decides the quick tier)."""
    import os
    import time
    from playback.studio.equalizer import Equalizer, CompareExecutionConfig, ComparatorResult, EqualityStatus
    import multiprocessing

    def player(rid):
        if rid.endswith('hang'):
            time.sleep(60)
        if rid.endswith('exit'):
            os._exit(3)
        return eqbind.FakePlayback(rid, 1, 'equal')
    ids = ['Cat/a', 'Cat/b-hang', 'Cat/c', 'Cat/d-exit', 'Cat/e', 'Cat/f-hang']
    eq = Equalizer(iter(ids), player, lambda o: o, lambda a, b: ComparatorResult(EqualityStatus.Equal),
                   compare_execution_config=CompareExecutionConfig(compare_in_dedicated_process=True,
                                                                   compare_process_recycle_rate=2, compare_process_timeout=1))
    t0 = time.time()
    out = [c.comparator_status.equality_status.name for c in eq.run_comparison()]
    wall = time.time() - t0
    time.sleep(2)
    left = [p for p in multiprocessing.active_children() if p.is_alive()]
    rep.extra['real_process_smoke'] = {'verdicts': out, 'wall_s': round(wall, 1), 'live_children_after_2s': len(left)}
    if len(out) != len(ids) or wall > 60:
        rep.violation({'summary': 'real-process smoke: %d comparisons in %.1fs' % (len(out), wall), 'signature': None})
    if left:
        rep.violation({'summary': 'real-process smoke: %d worker processes still alive 2 s after the run' % len(left), 'signature': None})
        for p in left:
            p.kill()


def replay(rep, body):
    return c08.replay(rep, body, judge=judge_c13)
