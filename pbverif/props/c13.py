"""C13 Comparison runs always finish and leave no worker behind."""
from . import c08
from .. import eqbind


def judge_c13(sc, keep, res, inproc):
    bad = []
    for v in res['violations']:
        bad.append(v)
    for w, n in res['served'].items():
        if n > sc['rate']:
            bad.append('%s served %d replays, recycle rate is %d' % (w, n, sc['rate']))
    for k, w in enumerate(res['waits'], 1):
        if w > eqbind.TIMEOUT + 1.0 + 0.11:
            bad.append('comparison %d took %.2f (virtual) seconds, time-out is %.1f' % (k, w, eqbind.TIMEOUT))
    exp_n = min(sc['stop'], len(sc['beh']))
    if len(res['out']) != exp_n:
        bad.append('%d comparisons produced, %d expected before the run ends' % (len(res['out']), exp_n))
    # a hung or dead worker is *reported* as a failure (the run continues)
    for o in res['out']:
        b = sc['beh'][o['id'] - 1] if 0 < o['id'] <= len(sc['beh']) else None
        if b in ('hangs', 'exits') and not o['verdict'].startswith('Failure'):
            bad.append('recording %d (%s) was not reported as a failure: %s' % (o['id'], b, o['verdict']))
        # ... and the run continues with a fresh worker: a healthy recording is replayed and compared, not failed
        if b in ('equal', 'different', 'bare') and o['verdict'].startswith('Failure') and o['id'] not in sc.get('orphans', ()):
            bad.append('recording %d (%s) came back as %s: the run did not continue with a working worker'
                       % (o['id'], b, o['verdict']))
    return bad


def extra_scenarios(tier):
    """a worker that survives a failed comparison (its answer cannot be read by the parent) at every position of a
    recycle period, next to hangs and deaths"""
    q = tier == 'quick'
    return [('unread_r2', c08.consts(4, ['equal', 'unreadable', 'hangs'], 2, [4]), 120 if q else 5000),
            ('unread_r3', c08.consts(4 if q else 5, ['equal', 'unreadable', 'exits'], 3, [4 if q else 5]), 120 if q else 5000),
            ('unread_r1', c08.consts(3, ['equal', 'unreadable', 'late'], 1, [3]), 60 if q else 2000),
            # ... or answers (False, text) because it could not describe the failure: the task counts towards its age
            ('report_r2', c08.consts(4 if q else 5, ['equal', 'reportRaises', 'hangs'], 2, [4 if q else 5]), 100 if q else 3000)]


def run(rep, tier, seed):
    c08.run(rep, tier, seed, judge=judge_c13, extra=extra_scenarios)
    rep.rule = ('same scenarios as C08 (terminal states of spec/Equalizer.tla: hangs and worker deaths at any position incl. '
                'first, last, consecutive; recycle rates 1-3; runs consumed fully, closed early, or dropped by the consumer), '
                'TLC additionally checks Terminates and NoLeak (liveness under weak fairness) and RecycleBound; on the real '
                'Equalizer under the deterministic scheduler: the run ends within the step bound, every worker participant is '
                'done or killed afterwards, tasks served per worker <= rate, virtual time per comparison <= time-out + 1 s, '
                'hung / dead workers are reported as failures. non-trivial = scenario with a hang, death or late answer')
    rep.assumptions = rep.assumptions + ['real processes are exercised only by the thorough-tier smoke run']
    if tier == 'thorough':
        smoke(rep)


def smoke(rep):
    """Real multiprocessing (subprocess with the parent-side hooks on), generous wall-clock bounds, thorough tier only."""
    import json
    import os
    import subprocess
    import sys
    import tempfile
    from .. import suitetrace
    fd, path = tempfile.mkstemp(prefix='pbverif-eqsmoke-', suffix='.ndjson')
    os.close(fd)
    os.remove(path)
    env = dict(os.environ)
    env['PLAYBACK_VERIF_TRACE'] = path
    env['PYTHONPATH'] = os.pathsep.join([p for p in sys.path if p])
    p = subprocess.run([sys.executable, '-m', 'pbverif.eqsmoke'], env=env, stdout=subprocess.PIPE, stderr=subprocess.PIPE,
                       universal_newlines=True, timeout=900,
                       cwd=os.path.dirname(os.path.dirname(os.path.dirname(os.path.abspath(__file__)))))
    events = []
    if os.path.exists(path):
        with open(path) as f:
            for line in f:
                try:
                    events.append(json.loads(line))
                except ValueError:
                    pass
        os.remove(path)
    try:
        res = json.loads(p.stdout.strip().splitlines()[-1])
    except Exception:
        raise RuntimeError('equalizer smoke driver failed: %s %s' % (p.stdout[-300:], p.stderr[-600:]))
    rep.extra['real_process_smoke'] = res
    for r in res:
        n = len(r['ids']) if r['stop'] is None else r['stop']
        rep.evaluations += 1
        if len(r['out']) != n or r['wall_s'] > 120:
            rep.violation({'summary': 'real processes: %d comparisons (expected %d) in %.1fs for %s' % (len(r['out']), n, r['wall_s'], r['ids']),
                           'signature': None})
        if r['left_alive']:
            rep.violation({'summary': 'real processes: worker(s) %s still alive 1.5 s after the run over %s' % (r['left_alive'], r['ids']),
                           'signature': None})
        for rid, status, att in r['out']:
            bad_status = (rid.endswith(('hang', 'stubborn', 'exit')) != (status == 'EqualizerFailure'))
            if bad_status or (att is not None and att != rid):
                rep.violation({'summary': 'real processes: %s -> %s with replay of %s' % (rid, status, att), 'signature': None})
    suitetrace.validate(rep, 'real-process smoke scenarios', 'EqualizerTrace', suitetrace.equalizer_traces(events))


def replay(rep, body):
    return c08.replay(rep, body, judge=judge_c13)
