"""C11 Recorded data cannot be altered through the values handed out."""
from ..storebind import StoreCheck, consts as sconsts, METAS_SMALL, CONFIGS, replay_file as store_replay
from ..recprops import RecorderCheck, consts, K, opts, replay_file as rec_replay

STORE_CATS = {'aliasing'}
REC_CATS = {'pseen', 'pbout', 'recout', 'store_values', 'store_keys', 'pmissing'}


def nontrivial(beh):
    return any(s['ev']['kind'] in ('mutate',) or (s['ev']['kind'] == 'pctl' and s['ev']['step']['kind'] == 'mutate') for s in beh)


def rec_consts(steps, **over):
    c = dict(InCalls=[('ia1', 1), ('ia2', 2)], OutAliases=['oa1', 'oa2'], Vals=['v1', 'v2'], Excs=['E1'],
             OutResults=[('val', 'v1')], Ends=['ret'], Classes=[K('K1', copyOn=True)], Ctl=['mutate', 'data', 'playdata'],
             MaxSteps=steps, MaxRuns=3, MaxRecs=1, Modes=['same'])
    c.update(over)
    return consts(**c)


def run(rep, tier, seed):
    rep.rule = ('(a) paths of spec/Store.tla with fetch -> mutate everything reachable from the fetched recording '
                '(get_data results, item access, get_data_direct objects, the metadata dict, new keys) -> fetch again '
                '(same cassette object and a new one) and read -> mutate -> read on one recording, on the in-memory, '
                'file-based and S3 cassettes; (b) paths of spec/Recorder.tla where the program mutates, in place, every '
                'value it received from or sent to intercepted calls: while recording with copy-on-interception (the '
                'saved recording must be unaffected) and while replaying (a later call in the same replay and a second '
                'replay must observe the recorded values). concretisations prefer mutable shapes (lists, dicts, sets, '
                'objects, tuples containing them). non-trivial = path with a mutation; distinct = event sequence')
    rep.assumptions = ['mutation operators: list append, dict set, set add, object attribute, first mutable reachable in tuples']
    chk = StoreCheck(rep, tier, seed, STORE_CATS, ['mutate'])
    try:
        ex = chk.run_config('fetchMutateFetch', sconsts(Cats=['A'], Metas=METAS_SMALL[2:3], Ops=['get', 'mutate', 'list'],
                                                           FilterNames=['k2is1'], Limits=[0],
                                                           MaxSaves=2, MaxQueries=3 if tier == 'quick' else 4),
                            cap=20000 if tier == 'quick' else 200000, rich=True, n_seeds=1 if tier == 'quick' else 3)
        rep.exhaustive = bool(ex)
    finally:
        chk.close()
    rc = RecorderCheck(rep, tier, seed, REC_CATS, nontrivial)
    try:
        if tier == 'quick':
            rc.check('recChk', rec_consts(3, MaxRuns=2), invariants=['TypeOK', 'ReplayFaithful', 'SameOutputs', 'IdleClean'])
            rc.generate('recMutate', rec_consts(3, InCalls=[('ia1', 1), ('ia2', 2), ('ia2', 1)], OutAliases=['oa1', 'oa2'], Vals=['v1'], Ctl=['mutate']),
                        cassettes=('memory', 'file', 's3'), n_conc=2, sample=3000, cap=5000)
            rc.generate('recData', rec_consts(2, MaxRuns=2, Ctl=['mutate', 'data', 'playdata']), cassettes=('memory',), n_conc=1,
                        sample=2500, cap=4000)
        else:
            rc.check('recChk', rec_consts(4, MaxRuns=2), invariants=['TypeOK', 'ReplayFaithful', 'SameOutputs', 'IdleClean'],
                     timeout=3000)
            rc.generate('recMutate', rec_consts(3, Ctl=['mutate']), cassettes=('memory', 'file', 's3'), n_conc=2,
                        sample=60000, cap=90000, max_states=900000)
            rc.generate('recData', rec_consts(3, MaxRuns=2), cassettes=('memory', 'file'), n_conc=2, sample=40000, cap=60000,
                        max_states=900000)
    finally:
        rc.close()


def replay(rep, body):
    if body.get('replay', {}).get('kind') == 'store':
        return store_replay(rep, body, STORE_CATS)
    return rec_replay(rep, body, REC_CATS)
