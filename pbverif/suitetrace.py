"""Direction B: executions nobody scripted.  The repository's own tests are run (in a subprocess, against the
repository under check) with the guarded hooks switched on (PLAYBACK_VERIF_TRACE); the logged events are split
into one trace per recorder / equalizer / async-cassette object and validated by TLC against the trace specs.
"""
import json
import os
import subprocess
import sys
import tempfile

from . import tlc, tracecheck

REPO = os.environ.get('PBVERIF_REPO', '/repo')


def run_tests(test_paths, timeout=900):
    """returns list of event dicts"""
    fd, path = tempfile.mkstemp(prefix='pbverif-suite-', suffix='.ndjson')
    os.close(fd)
    os.remove(path)
    env = dict(os.environ)
    env['PLAYBACK_VERIF_TRACE'] = path
    env['PYTHONPATH'] = REPO
    cmd = [sys.executable, '-m', 'pytest', '-q', '-p', 'no:cacheprovider', '--timeout=600',
           '--continue-on-collection-errors'] + list(test_paths)
    p = subprocess.run(cmd, cwd=REPO, env=env, stdout=subprocess.PIPE, stderr=subprocess.STDOUT, timeout=timeout,
                       universal_newlines=True)
    events = []
    if os.path.exists(path):
        with open(path) as f:
            for line in f:
                line = line.strip()
                if line:
                    try:
                        events.append(json.loads(line))
                    except ValueError:
                        pass
        os.remove(path)
    tail = p.stdout.strip().splitlines()[-1] if p.stdout.strip() else ''
    return events, tail


def _group(events, field):
    groups = {}
    for e in events:
        if field in e:
            groups.setdefault((e['pid'], e[field]), []).append(e)
    out = []
    for k, evs in groups.items():
        evs.sort(key=lambda e: e['seq'])
        out.append(evs)
    return out


def recorder_traces(events):
    """one trace per recorder object; traces with events of several threads inside one operation are marked"""
    traces = []
    for evs in _group(events, 'r'):
        norm = []
        tids = set()
        for e in evs:
            tids.add(e['tid'])
            norm.append({'e': e['e'], 'rid': e.get('rid') or '', 'key': (e.get('key') or '')[:80], 'alias': e.get('alias') or '',
                         'n': int(e.get('n') or 0), 'mode': e.get('mode') or '', 'decision': e.get('decision') or ''})
        traces.append({'id': len(traces) + 1, 'events': norm, 'threads': len(tids)})
    return traces


def equalizer_traces(events):
    traces = []
    for evs in _group(events, 'q'):
        workers = {}
        norm = []
        for e in evs:
            w = e.get('worker')
            if w is not None:
                workers.setdefault(w, len(workers) + 1)
            norm.append({'e': e['e'], 'id': e.get('id') or '', 'worker': workers.get(w, 0), 'age': int(e.get('age') or 0),
                         'rate': int(e.get('rate') or 0), 'ok': bool(e.get('ok')), 'status': e.get('status') or '',
                         'attached': e.get('attached') or ''})
            if e['e'] == 'finally':   # id() of a finished equalizer may be reused: one run per trace
                traces.append({'id': len(traces) + 1, 'events': norm})
                norm = []
                workers = {}
        traces.append({'id': len(traces) + 1, 'events': norm})
    return traces


def async_traces(events):
    traces = []
    for evs in _group(events, 'c'):
        ops = {}
        norm = []
        for e in evs:
            if e['e'] == 'enqueue':
                ops.setdefault(e['op'], 'o%d' % (len(ops) + 1))
                norm.append({'e': 'req', 'o': ops[e['op']]})
            elif e['e'] == 'applied':
                norm.append({'e': 'app' if e.get('ok') else 'fail', 'o': ops.get(e['op'], 'unknown')})
            elif e['e'] == 'closed':
                if e.get('joined'):
                    norm.append({'e': 'close', 'o': ''})
                # id() of a closed cassette may be reused by a later object: a close ends the trace
                traces.append({'id': len(traces) + 1, 'events': norm})
                norm = []
                ops = {}
        traces.append({'id': len(traces) + 1, 'events': norm})
    return traces


def validate(rep, what, module, traces, note=''):
    """validate traces with TLC; a rejection by the observable-level trace spec is a violation"""
    traces = [t for t in traces if t['events']]
    if not traces:
        rep.extra.setdefault('suite_traces', {})[what] = {'traces': 0}
        return
    with tlc.Scratch() as s:
        r, acc, rej = tracecheck.validate(s, module, module + '.cfg', [{'id': t['id'], 'events': t['events']} for t in traces])
        rep.add_tlc('%s validation of %d logged executions (%s)' % (module, len(traces), what), r)
        rep.accepted += len(acc)
        info = {'traces': len(traces), 'events': sum(len(t['events']) for t in traces), 'accepted': len(acc), 'rejected': len(rej)}
        for t in rej[:5]:
            k = tracecheck.longest_prefix(s, module, module + '.cfg', {'id': t['id'], 'events': t['events']})
            nxt = t['events'][k] if k < len(t['events']) else None
            full = [x for x in traces if x['id'] == t['id']][0]
            if full.get('threads', 1) > 1 and nxt is not None and nxt.get('e') == 'out':
                # concurrent output calls of one alias race on the ordinal inside the repository code; the trace order
                # of such events is not meaningful (not a claim of any listed property): reported, not judged
                info.setdefault('concurrent_ordinal_races_not_judged', 0)
                info['concurrent_ordinal_races_not_judged'] += 1
                continue
            rep.violation({'summary': '%s: execution of %s rejected after %d of %d events; next event %s; previous %s'
                                      % (module, what, k, len(t['events']), nxt, t['events'][max(0, k - 2):k]),
                           'signature': None}, replay={'kind': 'suite-trace', 'module': module, 'events': t['events']})
        rep.extra.setdefault('suite_traces', {})[what] = info
    if len(rep.samples) < 4:
        rep.sample({'logged_execution_of': what, 'events': traces[0]['events'][:12]})


def replay_trace(body):
    rp = body['replay']
    with tlc.Scratch() as s:
        r, acc, rej = tracecheck.validate(s, rp['module'], rp['module'] + '.cfg', [{'id': 1, 'events': rp['events']}])
        if acc:
            print('trace accepted')
            return True
        k = tracecheck.longest_prefix(s, rp['module'], rp['module'] + '.cfg', {'id': 1, 'events': rp['events']})
        print('VIOLATING: trace rejected after %d events; next: %s' % (k, rp['events'][k] if k < len(rp['events']) else None))
        return False
