"""In-memory bucket behind the *real* S3BasicFacade / S3TapeCassette.

Only what the facade uses is provided: client.put_object / get_object (raising an exception whose class is named
NoSuchKey), resource.Bucket(b).objects.filter(Prefix=...) (iteration in key order, .delete()), object summaries with
key, last_modified (tz-aware) and get()['Body'].read().  Every mutation is logged; a crash can be injected after the
k-th mutation; the clock is controllable.  Fidelity to S3 (listing order = binary key order, NoSuchKey naming,
last_modified = time of the put) is a stated assumption of every check that uses it.
"""
import datetime
import io

import pytz


class NoSuchKey(Exception):
    pass


class InjectedCrash(BaseException):
    """Process death injected after a bucket mutation (BaseException: nothing in the library may swallow it)."""


def service_error(op='PutObject'):
    """What boto3 raises when the service refuses a request (throttling / 5xx); nothing was written."""
    try:
        from botocore.exceptions import ClientError
        return ClientError({'Error': {'Code': 'SlowDown', 'Message': 'injected: please reduce your request rate'},
                            'ResponseMetadata': {'HTTPStatusCode': 503}}, op)
    except ImportError:  # pragma: no cover
        return IOError('injected service error on %s' % op)


class BucketStore(object):
    def __init__(self):
        self.objects = {}  # key -> (body bytes, last_modified, kwargs)
        self.mutations = []  # (op, key, owner tag)
        self.reads = []
        self.now = None  # datetime (naive UTC) or None -> real clock
        self.crash_after = None  # crash after this many further mutations
        self.owner = None  # tag of the cassette currently calling (set by the harness)
        self.gate = None  # optional callable(op, key) invoked *before* every mutation (may block: interleavings)
        self.after = None  # optional callable(op, key) invoked right *after* every mutation (intermediate-point oracles)

    def clock(self):
        n = self.now if self.now is not None else datetime.datetime.utcnow()
        return pytz.utc.localize(n)

    def _mutated(self, op, key):
        self.mutations.append((op, key, self.owner))
        if self.after is not None:
            self.after(op, key)
        if self.crash_after is not None:
            self.crash_after -= 1
            if self.crash_after <= 0:
                self.crash_after = None
                raise InjectedCrash('crash after mutation %s %s' % (op, key))

    def put(self, key, body, **kw):
        if self.gate is not None:
            self.gate('put', key)
        if isinstance(body, str):
            body = body.encode('utf-8')
        self.objects[key] = (bytes(body), self.clock(), kw)
        self._mutated('put', key)

    def delete(self, key):
        if self.gate is not None:
            self.gate('delete', key)
        if key in self.objects:
            del self.objects[key]
            self._mutated('delete', key)

    def snapshot(self):
        return sorted((k, v[0]) for k, v in self.objects.items())


class _Body(object):
    def __init__(self, data):
        self._data = data

    def read(self):
        return self._data


class _Client(object):
    def __init__(self, store):
        self.store = store

    def put_object(self, Bucket=None, Key=None, Body=None, **kw):
        self.store.put(Key, Body, **kw)
        return {'ResponseMetadata': {'HTTPStatusCode': 200}}

    def get_object(self, Bucket=None, Key=None):
        self.store.reads.append(Key)
        if Key not in self.store.objects:
            raise NoSuchKey('An error occurred (NoSuchKey) when calling the GetObject operation: %s' % Key)
        return {'Body': _Body(self.store.objects[Key][0])}


class _Summary(object):
    def __init__(self, store, key):
        self._store = store
        self.key = key
        self.last_modified = store.objects[key][1]

    def get(self):
        self._store.reads.append(self.key)
        if self.key not in self._store.objects:
            raise NoSuchKey(self.key)
        return {'Body': _Body(self._store.objects[self.key][0])}


class _Collection(object):
    def __init__(self, store, prefix):
        self.store = store
        self.prefix = prefix or ''

    def _keys(self):
        if self.store.gate is not None:
            self.store.gate('list', self.prefix)
        return sorted((k for k in self.store.objects if k.startswith(self.prefix)), key=lambda k: k.encode('utf-8'))

    def __iter__(self):
        for k in self._keys():
            if k in self.store.objects:
                yield _Summary(self.store, k)

    def delete(self):
        for k in self._keys():
            self.store.delete(k)
        return [{'ResponseMetadata': {'HTTPStatusCode': 200}}]


class _Objects(object):
    def __init__(self, store):
        self.store = store

    def filter(self, Prefix=None, **kw):
        return _Collection(self.store, Prefix)

    def all(self):
        return _Collection(self.store, '')


class _Bucket(object):
    def __init__(self, store, name):
        self.name = name
        self.objects = _Objects(store)


class _Resource(object):
    def __init__(self, store):
        self.store = store

    def Bucket(self, name):
        return _Bucket(self.store, name)


class FakeBoto3(object):
    def __init__(self, store):
        self.store = store

    def client(self, service, region_name=None, **kw):
        return _Client(self.store)

    def resource(self, service, **kw):
        return _Resource(self.store)


def make_s3_cassette(store=None, **kw):
    """A real S3TapeCassette whose facade talks to an in-memory bucket."""
    import playback.tape_cassettes.s3.s3_basic_facade as facade
    from playback.tape_cassettes.s3.s3_tape_cassette import S3TapeCassette
    store = store if store is not None else BucketStore()
    old = facade.boto3
    facade.boto3 = FakeBoto3(store)
    try:
        c = S3TapeCassette('verif-bucket', **kw)
    finally:
        facade.boto3 = old
    c.verif_store = store
    c.verif_kwargs = dict(kw)
    c.verif_snapshot = store.snapshot
    return c


def reopen_s3_cassette(inner, **over):
    kw = dict(inner.verif_kwargs)
    kw.update(over)
    return make_s3_cassette(inner.verif_store, **kw)
