"""Importable value classes used by concretisations (jsonpickle restores class references by module path)."""


class Plain(object):
    """Plain object with __dict__ and structural equality."""

    def __init__(self, **kw):
        self.__dict__.update(kw)

    def __eq__(self, other):
        return type(other) is type(self) and other.__dict__ == self.__dict__

    def __ne__(self, other):
        return not self == other

    def __hash__(self):
        return hash(tuple(sorted(self.__dict__)))

    def __repr__(self):
        return 'Plain(%s)' % ', '.join('%s=%r' % kv for kv in sorted(self.__dict__.items()))


class Other(Plain):
    pass


class ScriptedError1(Exception):
    pass


class ScriptedError2(Exception):
    pass


class ReturnedError(Exception):
    """An exception *object* used as an ordinary value (returned, not raised); equality by type."""

    def __eq__(self, other):
        return type(other) is type(self)

    def __ne__(self, other):
        return not self == other

    def __hash__(self):
        return hash(type(self))


class ScriptedInterrupt(BaseException):
    """interrupt-style termination (like KeyboardInterrupt / SystemExit)"""


class BadKey(object):
    """An argument that cannot be serialised: building the interception key fails."""

    def __init__(self, token):
        self.token = token

    def __getstate__(self):
        raise RuntimeError('BadKey cannot be serialised')

    def __reduce__(self):
        raise RuntimeError('BadKey cannot be serialised')


class UnsavableResult(object):
    """A value that is captured by reference without trouble but cannot be serialised when the cassette saves the
    recording: the *real* cassette's save fails half-way (not a failure injected in front of it)."""

    def __init__(self, token):
        self.token = token

    def __getstate__(self):
        raise RuntimeError('UnsavableResult cannot be serialised (scripted failure inside the cassette\'s save)')


class Reentrant(object):
    """A value whose serialisation calls back into the library (e.g. an archived payload that loads itself from another
    recording when it is pickled): `hook` is installed by the driver around a save."""
    hook = None

    def __init__(self, n):
        self.n = n

    def __getstate__(self):
        if Reentrant.hook is not None:
            Reentrant.hook()
        return {'n': self.n}

    def __setstate__(self, state):
        self.n = state['n']

    def __eq__(self, other):
        return type(other) is Reentrant and other.n == self.n

    def __ne__(self, other):
        return not self == other

    def __hash__(self):
        return hash(('Reentrant', self.n))

    def __repr__(self):
        return 'Reentrant(%r)' % (self.n,)


EXC = {'E1': ScriptedError1, 'E2': ScriptedError2}
