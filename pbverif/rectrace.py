"""Direction B on executions the harness drives: TLC behaviours of Recorder.tla are replayed into the real recorder
in a subprocess that has the guarded hooks switched on; the parent validates the hook log with RecorderTrace.tla.

    python -m pbverif.rectrace <seed> <count>      (PLAYBACK_VERIF_TRACE must be set)
"""
import json
import logging
import random
import sys


def main(seed, count):
    logging.disable(logging.CRITICAL)
    from . import mc, tlc, recprops
    from .recbind import Driver
    from .recprops import consts, K, opts
    c = consts(InCalls=[('ia1', 1), ('ia2', 1), ('ia2', 2)], OutAliases=['oa1', 'oa2'], Vals=['v1'],
               InFaults=['none', 'keyFail', 'prepFail'], OutFaults=['none', 'prepFail'],
               Bodies=['plain', 'interrupt', 'discards', 'forces'], OutResults=[('val', 'v1'), ('exc', 'E1')],
               Ctl=['discard', 'force', 'data'], Ends=['ret', 'raise', 'interrupt'],
               Classes=[K('K1'), K('K2', rate='frac')], Draws=['low', 'high'], SaveFails=[False, True],
               MaxSteps=2, MaxPSteps=2, MaxRuns=3, MaxRecs=2, Modes=['same', 'free'], InOpts=[opts()], OutOpts=[opts(failMissing=False)],
               PlayFaults=['unknown', 'raise'])
    rnd = random.Random(seed)
    with tlc.Scratch() as s:
        mc.write_mc(s, 'Recorder', 'MC_rectrace', recprops.to_tla_consts(c), invariants=[])
        # random behaviours of a configuration whose full graph is too large to dump (3 runs per history)
        r, behs = tlc.simulate(s, 'MC_rectrace', 'MC_rectrace.cfg', num=count, depth=40, seed=seed + 1, workers=1)
        d = Driver(recprops.driver_consts(c), recprops.mem_cassette, conc_seed=seed)
        d.vary_threads = False     # one thread per recorder: the trace order of output ordinals is meaningful
        mism = 0
        paths = []
        for b in behs[:count]:
            beh = [st for _a, st in b]
            if len(beh) < 3:
                continue
            paths.append(beh)
            mism += len(d.run(beh))
    print(json.dumps({'behaviours': len(paths), 'model_mismatches': mism, 'simulated': True}))


if __name__ == '__main__':
    main(int(sys.argv[1]), int(sys.argv[2]))
