"""Shared machinery of the properties decided on spec/Recorder.tla (C01 C02 C03 C04 C05 C09 C17 C18)."""
import multiprocessing as mp
import os
import random
import shutil
import tempfile
import time

from . import mc, tlc
from .mc import Raw
from .tlaval import to_json, from_json

ALL_INVARIANTS = ['TypeOK', 'FinalisedAtMostOnce', 'FinalisedOnce', 'NothingBeforeCreate', 'SavedOnlyIfCaptured',
                  'ReplayableIfComplete', 'IdleClean', 'Transparent', 'DisabledPassThrough', 'NoSilentInvention',
                  'ReplayFaithful', 'SameOutputs', 'OutputsExact', 'OneEntryPerCall', 'KeepPolicy',
                  'SkippedNeverRecords', 'MetaTruth']
ALL_PROPERTIES = ['ReplayPure']


def K(name, rate='one', ign=False, skipped=False, copyOn=False):
    return dict(name=name, rate=rate, ignoreForce=ign, skipped=skipped, copyOn=copyOn)


def opts(fb=(), runOrig=False, subst='none', failMissing=True):
    return dict(fb=tuple(fb), runOrig=runOrig, subst=subst, failMissing=failMissing)


DEFAULT_WORLD = {('ia1', 1): ('val', 'v1'), ('ia1', 2): ('val', 'v2'), ('ia2', 1): ('exc', 'E1'),
                 ('ia2', 2): ('val', 'v1'), ('ia3', 0): ('val', 'v2'), ('ia4', 1): ('val', 'v3'),
                 ('ia4', 2): ('exc', 'E2'), ('ia5', 1): ('val', 'v3'), ('ia5', 2): ('val', 'v1')}


def consts(**over):
    """Python-side description of a Recorder configuration; see to_tla_consts."""
    c = dict(
        InCalls=[('ia1', 1), ('ia1', 2), ('ia2', 1)],
        World=None,
        InnerCall=('ia1', 2),
        OutAliases=['oa1'], Vals=['v1', 'v2'], SentVals=None, Excs=['E1'], Handlers=['ia2', 'oa2'],
        InFaults=['none'], OutFaults=['none'], Bodies=['plain'],
        OutResults=[('val', 'v1'), ('exc', 'E1')],
        Ctl=[], Ends=['ret', 'raise'],
        Classes=[K('K1')], Draws=['low'], Extractors=['none'], SaveFails=[False],
        Toggles=0, StartEnabled=[True], MaxSteps=2, MaxPSteps=None, MaxRuns=1, MaxRecs=1, Modes=[], EditKinds=[],
        InOpts=[], OutOpts=[], PlayFaults=[], FreeBodies=[''],
        FixF1=True, FixF2=True, FixF3=True, FixF10=True)
    c.update(over)
    if c['MaxPSteps'] is None:
        c['MaxPSteps'] = c['MaxSteps']
    if c['SentVals'] is None:
        c['SentVals'] = list(c['Vals'])
    if c['World'] is None:
        c['World'] = {k: DEFAULT_WORLD[k] for k in c['InCalls']}
        if tuple(c['InnerCall']) not in c['World']:
            c['World'][tuple(c['InnerCall'])] = DEFAULT_WORLD[tuple(c['InnerCall'])]
    return c


def to_tla_consts(c):
    world = ('(' + ' @@ '.join('%s :> %s' % (mc.tla(tuple(k)), mc.tla(tuple(v))) for k, v in sorted(c['World'].items())) + ')') if c['World'] else '<<>>'
    incalls = set(tuple(x) for x in c['InCalls']) | ({tuple(c['InnerCall'])} if (set(c['Bodies']) | set(c.get('FreeBodies', ()))) & {'nestSame', 'nestOther'} else set())

    def recset(lst):
        return Raw('{' + ', '.join(mc.tla(x) for x in lst) + '}')

    def recseq(lst):
        return Raw('<<' + ', '.join(mc.tla(x) for x in lst) + '>>')
    return dict(
        InCalls=incalls, World=Raw(world), InnerCall=tuple(c['InnerCall']),
        OutAliases=set(c['OutAliases']), Vals=set(c['Vals']), SentVals=set(c['SentVals']), Excs=set(c['Excs']), Handlers=set(c['Handlers']),
        InFaults=set(c['InFaults']), OutFaults=set(c['OutFaults']), Bodies=set(c['Bodies']),
        OutResults=set(tuple(x) for x in c['OutResults']), Ctl=set(c['Ctl']), Ends=set(c['Ends']),
        Classes=recset(c['Classes']), Draws=set(c['Draws']), Extractors=set(c['Extractors']),
        SaveFails=set(c['SaveFails']), Toggles=c['Toggles'], StartEnabled=set(c['StartEnabled']),
        MaxSteps=c['MaxSteps'], MaxPSteps=c['MaxPSteps'], MaxRuns=c['MaxRuns'], MaxRecs=c['MaxRecs'], Modes=set(c['Modes']),
        EditKinds=set(c['EditKinds']), InOpts=recseq(c['InOpts']), OutOpts=recseq(c['OutOpts']),
        PlayFaults=set(c['PlayFaults']), FreeBodies=set(c.get('FreeBodies', [''])),
        FixF1=c['FixF1'], FixF2=c['FixF2'], FixF3=c['FixF3'], FixF10=c['FixF10'])


def driver_consts(c):
    return {'WorldMap': dict(c['World']), 'InnerCall': tuple(c['InnerCall']), 'ClassList': list(c['Classes']),
            'FreeOptsList': list(c['InOpts']), 'FreeOutOptsList': list(c['OutOpts'])}


# ------------------------------------------------------------------------------------------------------------------
# cassette factories (importable callables so that replay files can name them)

def mem_cassette():
    from playback.tape_cassettes.in_memory.in_memory_tape_cassette import InMemoryTapeCassette
    return InMemoryTapeCassette()


class _TmpFileCassette(object):
    pass


def file_cassette():
    from playback.tape_cassettes.file_based.file_based_tape_cassette import FileBasedTapeCassette
    d = tempfile.mkdtemp(prefix='pbverif-fc-')

    class Tmp(FileBasedTapeCassette):
        def close(self_inner):
            shutil.rmtree(d, ignore_errors=True)
    return Tmp(d)


def file_refetch(inner):
    from playback.tape_cassettes.file_based.file_based_tape_cassette import FileBasedTapeCassette
    return FileBasedTapeCassette(inner.directory)


def s3_cassette():
    from .fake_boto3 import make_s3_cassette
    return make_s3_cassette(key_prefix='pfx', read_only=False)


def s3_refetch(inner):
    from .fake_boto3 import reopen_s3_cassette
    return reopen_s3_cassette(inner, read_only=True)


class _AsyncComposite(object):
    """Recording goes through the real AsyncRecordOnlyTapeCassette (real flusher thread) in front of an in-memory
    cassette; reads go to the wrapped cassette after the wrapper has been closed (public API only: close() joins the
    flusher after its last flush) and a fresh wrapper started.  What the recorder-level specification says about the
    store must therefore hold for the composition 'recorder -> asynchronous wrapper -> storage' as well."""

    def __init__(self):
        from playback.tape_cassettes.in_memory.in_memory_tape_cassette import InMemoryTapeCassette
        self.store = InMemoryTapeCassette()
        self.wrapper = None
        self._fresh()

    def _fresh(self):
        from playback.tape_cassettes.asynchronous.async_record_only_tape_cassette import AsyncRecordOnlyTapeCassette
        self.wrapper = AsyncRecordOnlyTapeCassette(self.store, flush_interval=0.0005, timeout_on_close=30)
        self.wrapper.start()

    def _drain(self):
        self.wrapper.close()
        self._fresh()

    def create_new_recording(self, category):
        return self.wrapper.create_new_recording(category)

    def save_recording(self, recording):
        try:
            return self.wrapper.save_recording(recording)
        finally:
            self._drain()

    def _save_recording(self, recording):
        return self.wrapper._save_recording(recording)

    def abort_recording(self, recording=None):
        try:
            return self.wrapper.abort_recording(recording)
        finally:
            self._drain()

    def get_recording(self, recording_id):
        self._drain()
        return self.store.get_recording(recording_id)

    def get_recording_metadata(self, recording_id):
        self._drain()
        return self.store.get_recording_metadata(recording_id)

    def iter_recording_ids(self, *a, **kw):
        self._drain()
        return self.store.iter_recording_ids(*a, **kw)

    def iter_recordings_metadata(self, *a, **kw):
        self._drain()
        return self.store.iter_recordings_metadata(*a, **kw)

    def extract_recording_category(self, recording_id):
        return self.store.extract_recording_category(recording_id)

    def close(self):
        self.wrapper.close()


def async_cassette():
    return _AsyncComposite()


# actions of Recorder.tla that the first checking config of a property must take at least once (vacuity guard)
MUST_COVER = {
    'C01': ['CallInput', 'CallOutput', 'Finalise', 'PlayStart', 'POpEnd', 'PlayEnd'],
    'C02': ['CallInput', 'Finalise', 'PlayStart', 'PlayUnknown', 'PlayEnd'],
    'C03': ['CallOutput', 'Finalise', 'PlayStart', 'POpEnd', 'PlayEnd'],
    'C04': ['CallInput', 'CallOutput', 'Control', 'Finalise'],
    'C05': ['CallInput', 'CallOutput', 'Control', 'Finalise', 'PlayStart'],
    'C09': ['CallInput', 'Control', 'Finalise', 'PlayStart', 'PlayUnknown', 'PlayRaise'],
    'C11': ['CallInput', 'Control', 'Finalise', 'PlayStart'],
    'C17': ['Control', 'Finalise'],
    'C18': ['CallInput', 'Finalise'],
}


CASSETTES = {'memory': (mem_cassette, None), 'file': (file_cassette, file_refetch), 's3': (s3_cassette, s3_refetch),
             'async': (async_cassette, None)}


# ------------------------------------------------------------------------------------------------------------------
_G = {}


def _work(task):
    """Run behaviours (lists of node ids into the inherited graph, or explicit state lists) through the driver.

    Accounting (signature, non-triviality, per-action counts) is done here so that the parent never has to parse
    the state labels of the whole graph."""
    import hashlib
    from .recbind import Driver
    cfg_name, items, conc_seed, cassette, cats, nontrivial, dopts = task
    dc = _G['dc'][cfg_name]
    graph = _G['graphs'].get(cfg_name)
    fac, refetch = CASSETTES[cassette]
    d = Driver(dc, fac, conc_seed=conc_seed, fetch_factory=refetch)
    for k, v in dopts.items():
        setattr(d, k, v)
    res = []
    for n_item, it in enumerate(items):
        beh = [graph.states[n] for n in it] if graph is not None and isinstance(it[0], int) else it
        try:
            mm = d.run(beh)
        except Exception as ex:  # harness failure on this behaviour: report, never hide
            import traceback
            mm = [{'cat': 'harness', 'step': -1, 'expected': '', 'observed': traceback.format_exc()[-1500:], 'note': repr(ex)}]
        kinds = {}
        for s in beh[1:]:
            k = s['ev']['kind']
            kinds[k] = kinds.get(k, 0) + 1
        nt = bool(nontrivial(beh))
        bad = [m for m in mm if m['cat'] in cats]
        r = {'mm': [dict(m) for m in mm], 'sig': hashlib.sha1(repr(beh_signature(beh)).encode()).hexdigest()[:16],
             'nt': nt, 'kinds': kinds, 'len': len(beh), 'last': beh[-1]['ev']['kind'], 'from_graph': graph is not None}
        if bad or (n_item < 2 and nt and len(beh) > 4):
            r['summary'] = ev_summary(beh)
        if bad:
            r['beh_json'] = [to_json(s) for s in beh]
        res.append(r)
    return cfg_name, conc_seed, cassette, res


def chunks(lst, n):
    for i in range(0, len(lst), n):
        yield lst[i:i + n]


def beh_signature(beh):
    return tuple((s['ev']['kind'], s['ev']['step']['alias'], s['ev']['step']['arg'], s['ev']['step']['fault'],
                  s['ev']['step']['body'], tuple(s['ev']['seen']), s['ev']['decision'], s['ev']['mode'])
                 for s in beh)


def ev_summary(beh):
    out = []
    for s in beh[1:]:
        e = s['ev']
        st = e['step']
        d = {'a': e['kind']}
        if st['kind']:
            d.update({k: st[k] for k in ('alias', 'arg', 'sent', 'body', 'fault', 'opt') if st[k] not in ('', 0, 'none')})
            if st['kind'] == 'out':
                d['res'] = list(st['res'])
        if tuple(e['seen']) != ('none', ''):
            d['seen'] = list(e['seen'])
        for k in ('cls', 'decision', 'draw', 'extractor', 'mode'):
            if e[k]:
                d[k] = e[k]
        if e['saveFails']:
            d['saveFails'] = True
        if e['calls']:
            d['calls'] = list(e['calls'])
        out.append(d)
    return out


def _log(msg):
    if os.environ.get('PBVERIF_VERBOSE'):
        import sys
        sys.stderr.write('[pbverif] %s\n' % msg)
        sys.stderr.flush()


class RecorderCheck(object):
    """One property's run: TLC obligations on checking configs + replay of generated behaviours into the code."""

    def __init__(self, rep, tier, seed, violation_cats, nontrivial=None, signature=None):
        self.rep = rep
        self.tier = tier
        self.seed = seed
        self.cats = set(violation_cats)
        self.nontrivial = nontrivial or (lambda beh: True)
        self.signature = signature or (lambda mm, beh: None)
        self.scratch = tlc.Scratch()
        self.n_cfg = 0
        self.pool = None
        self.driver_opts = {}
        self.all_exhaustive = True

    def close(self):
        self.scratch.close()
        # exhaustive only if *every* generating configuration of this run was enumerated completely
        self.rep.exhaustive = bool(self.rep.exhaustive and self.all_exhaustive)

    # -- TLC obligations -------------------------------------------------------------------------------------
    def check(self, name, c, invariants=None, properties=None, timeout=1800, expect=None):
        """Exhaustive TLC run of a checking config; a violated invariant is a VIOLATION of the design."""
        invariants = ALL_INVARIANTS if invariants is None else invariants
        properties = ALL_PROPERTIES if properties is None else properties
        mod = 'MC_%s_%s' % (self.rep.prop, name)
        mc.write_mc(self.scratch, 'Recorder', mod, to_tla_consts(c), invariants=invariants, properties=properties)
        r = tlc.run_tlc(self.scratch, mod, mod + '.cfg', timeout=timeout, coverage=True)
        self.rep.add_tlc(name, r, obligations=invariants + properties)
        _log('check %s: %d distinct, %.1fs' % (name, r.distinct, r.wall_s))
        # vacuity guard: TLC's per-action counts of the checking config; an action the property is about that is never
        # taken means the invariants were never exercised there (machinery failure, not a verdict)
        if r.coverage and expect is None:
            cov = dict((a, t) for a, (_d, t) in r.coverage.items())
            self.rep.extra.setdefault('tlc_action_coverage', {})[name] = cov
            missing = [a for a in MUST_COVER.get(self.rep.prop, ()) if name == 'chk' and a in cov and cov[a] == 0]
            if missing and not r.violation:
                raise tlc.TLCError('vacuity: config %s of %s never takes the action(s) %s' % (name, self.rep.prop, missing))
        if expect is not None:
            # a design-level counterexample we expect on the *pinned* design (documentation of a finding)
            self.rep.extra.setdefault('design_counterexamples', []).append(
                {'config': name, 'expected_violation': expect, 'tlc_violation': r.violation,
                 'trace': [s.get('ev', {}).get('kind') for s in r.error_trace]})
            if r.violation != expect:
                raise tlc.TLCError('config %s: expected TLC to violate %s, got %r' % (name, expect, r.violation))
            return r
        if r.violation:
            path = self.rep.violation({'summary': 'TLC: %s violated on spec config %s' % (r.violation, name),
                                       'signature': 'tlc:%s:%s' % (name, r.violation),
                                       'trace': [to_json(s.get('ev')) for s in r.error_trace]})
        return r

    # -- behaviours -> code ----------------------------------------------------------------------------------
    def generate(self, name, c, cassettes=('memory',), n_conc=2, cap=None, sample=None, max_states=300000,
                 all_paths=False, invariants=None, chunk=40):
        """Dump the state graph of a generating config and replay behaviours into the real code."""
        mod = 'MC_%s_%s' % (self.rep.prop, name)
        mc.write_mc(self.scratch, 'Recorder', mod, to_tla_consts(c),
                    invariants=ALL_INVARIANTS if invariants is None else invariants, properties=ALL_PROPERTIES)
        t0 = time.time()
        r, g = tlc.dump_graph(self.scratch, mod, mod + '.cfg', max_states=max_states)
        self.rep.add_tlc(name + ' (generating)', r, obligations=['all invariants'])
        _log('generate %s: %d states, tlc+parse %.1fs' % (name, r.distinct, time.time() - t0))
        if r.violation:
            self.rep.violation({'summary': 'TLC: %s violated on generating config %s' % (r.violation, name),
                                'signature': 'tlc:%s:%s' % (name, r.violation),
                                'trace': [to_json(s.get('ev')) for s in r.error_trace]})
            return
        rnd = random.Random(self.seed * 7919 + self.n_cfg)
        self.n_cfg += 1
        total, _ = g.count_paths()
        if all_paths and (cap is None or total <= cap):
            paths = list(g.iter_all_paths())
            exhaustive = True
        else:
            paths = g.edge_cover_paths(rnd)
            exhaustive = False
            want = sample or 0
            seen = set(tuple(p) for p in paths)
            tries = 0
            while len(paths) < len(seen) + want and tries < want * 3 and len(seen) < total:
                p = tuple(g.random_path(rnd))
                tries += 1
                if p not in seen:
                    seen.add(p)
                    paths.append(list(p))
                    want -= 1
                    if want <= 0:
                        break
            if cap and len(paths) > cap:
                rnd.shuffle(paths)
                paths = paths[:cap]
        self.all_exhaustive = self.all_exhaustive and exhaustive
        _log('%s: %d complete paths, replaying %d' % (name, total, len(paths)))
        self.rep.extra.setdefault('generating', []).append(
            {'config': name, 'graph_states': len(g.states), 'graph_edges': g.n_edges, 'complete_paths': total,
             'paths_replayed': len(paths), 'all_paths': exhaustive, 'cassettes': list(cassettes),
             'concretisations': n_conc})
        t0 = time.time()
        self._replay(name, c, g, paths, cassettes, n_conc, chunk)
        _log('replayed %d paths of %s x %s x %d in %.1fs' % (len(paths), name, cassettes, n_conc, time.time() - t0))
        return exhaustive

    def simulate(self, name, c, num, depth, cassettes=('memory',), n_conc=1, chunk=40):
        mod = 'MC_%s_%s' % (self.rep.prop, name)
        mc.write_mc(self.scratch, 'Recorder', mod, to_tla_consts(c), invariants=ALL_INVARIANTS,
                    properties=ALL_PROPERTIES)
        workers = 1
        r, behs = tlc.simulate(self.scratch, mod, mod + '.cfg', num=num, depth=depth, seed=self.seed + 1,
                               workers=workers)
        if r.violation:
            self.rep.violation({'summary': 'TLC (simulation): %s violated on %s' % (r.violation, name),
                                'signature': 'tlc:%s:%s' % (name, r.violation)})
            return
        behs = [[s for _a, s in b] for b in behs]
        self.all_exhaustive = False
        self.rep.extra.setdefault('simulated', []).append({'config': name, 'behaviours': len(behs), 'depth': depth})
        self._replay(name, c, None, behs, cassettes, n_conc, chunk)

    def _replay(self, name, c, g, paths, cassettes, n_conc, chunk):
        _G.setdefault('dc', {})[name] = driver_consts(c)
        _G.setdefault('graphs', {})[name] = g
        tasks = []
        for cas in cassettes:
            for k in range(n_conc):
                for ch in chunks(paths, chunk):
                    tasks.append((name, ch, self.seed * 101 + k, cas, self.cats, self.nontrivial, self.driver_opts))
        ctx = mp.get_context('fork')
        nproc = min(tlc.NCPU, max(1, len(tasks)))
        with ctx.Pool(nproc) as pool:
            for cfg_name, conc_seed, cassette, res in pool.imap_unordered(_work, tasks):
                for r in res:
                    self._account(cfg_name, c, r, conc_seed, cassette)
        _G['graphs'][name] = None

    def _account(self, cfg_name, c, r, conc_seed, cassette):
        rep = self.rep
        rep.traces += 1
        rep.evaluations += 1
        if r['nt']:
            rep.nontrivial.add(r['sig'])
        for k, n in r['kinds'].items():
            rep.count_action(k, n)
        if r.get('from_graph') and r.get('last') in ('enter', 'in', 'out', 'opend', 'playstart', 'pin', 'pout', 'popend'):
            # a complete path of the graph that stops in the middle of a run: the generating config deadlocks there (e.g. no
            # admissible draw for the finalisation), the run was never finished - a misconfiguration, not a verdict
            raise tlc.TLCError('generating config %s ends behaviours in the middle of a run (last event %s)'
                               % (cfg_name, r['last']))
        mm = r['mm']
        if len(rep.samples) < 3 and 'summary' in r and r['nt']:
            rep.sample({'config': cfg_name, 'cassette': cassette, 'behaviour': r['summary']})
        harness = [m for m in mm if m['cat'] == 'harness']
        if harness:
            raise RuntimeError('harness failure on a behaviour of %s: %s' % (cfg_name, harness[0]['observed']))
        bad = [m for m in mm if m['cat'] in self.cats]
        drift = [m for m in mm if m['cat'] not in self.cats]
        rep.drift += len(drift)
        if drift:
            dc = rep.extra.setdefault('drift_by_category', {})
            for m in drift:
                dc[m['cat']] = dc.get(m['cat'], 0) + 1
            if len(rep.extra.setdefault('drift_samples', [])) < 5:
                rep.extra['drift_samples'].append({'config': cfg_name, 'mismatch': drift[0]})
        if bad:
            first = bad[0]
            rep.violation({'summary': '%s: %s (expected %s, observed %s) at step %s of %s'
                                      % (first['cat'], first['note'], first['expected'], first['observed'],
                                         first['step'], cfg_name),
                           'signature': self.signature(bad, r.get('summary')),
                           'mismatches': bad[:6]},
                          replay={'kind': 'recorder', 'consts': _consts_json(c), 'cassette': cassette,
                                  'driver_opts': self.driver_opts,
                                  'conc_seed': conc_seed, 'behaviour': r['beh_json'],
                                  'summary': r.get('summary')})


def _consts_json(c):
    d = dict(c)
    d['World'] = [[list(k), list(v)] for k, v in c['World'].items()]
    return d


def _consts_from_json(d):
    c = dict(d)
    c['World'] = {tuple(k): tuple(v) for k, v in d['World']}
    return c


def replay_file(rep, body, violation_cats, shadow=False):
    """Re-execute the behaviour of a replay file; returns True when the property holds on it."""
    from .recbind import Driver
    rp = body['replay']
    c = _consts_from_json(rp['consts'])
    fac, refetch = CASSETTES[rp['cassette']]
    d = Driver(driver_consts(c), fac, conc_seed=rp['conc_seed'], fetch_factory=refetch)
    for k, v in (rp.get('driver_opts') or {}).items():
        setattr(d, k, v)
    if shadow:
        d.shadow = True
    beh = [from_json(s) for s in rp['behaviour']]
    mm = d.run(beh)
    bad = [m for m in mm if m['cat'] in violation_cats]
    for m in mm:
        print(('VIOLATING ' if m['cat'] in violation_cats else 'drift     ') + str(dict(m)))
    return not bad
