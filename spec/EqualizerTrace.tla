---------------------------- MODULE EqualizerTrace ----------------------------
(***************************************************************************)
(* Trace specification for the parent side of Equalizer.run_comparison in  *)
(* dedicated-process mode, logged by the guarded hooks while the real      *)
(* multiprocessing machinery runs (the repository's own tests, the C13     *)
(* smoke run).  Worker-side steps are not logged; they are what TLC infers *)
(* between a task_put and the matching result_got / died / timed_out.      *)
(*   worker_started(w)   a new worker; its served count starts at 0        *)
(*   task_put(id, w, age, rate)  the task goes to the current worker;      *)
(*                       age is that worker's task count <= rate           *)
(*   result_got / died / timed_out   exactly one ends the wait for a task  *)
(*   yielded(id, attached)  labelled with the id of the pending task; an   *)
(*                       attached replay belongs to that id; a worker that *)
(*                       died or timed out is not used again               *)
(*   finally             nothing pending                                   *)
(***************************************************************************)
EXTENDS Naturals, Sequences, TLC, Json, IOUtils

Traces == JsonDeserialize(IOEnv.TRACE_FILE)

VARIABLES tid, l, worker, served, pending, outcome
vars == <<tid, l, worker, served, pending, outcome>>

Trace == Traces[tid].events
Ev    == Trace[l]

Init == /\ tid \in 1 .. Len(Traces)
        /\ l = 1 /\ worker = 0 /\ served = 0 /\ pending = "" /\ outcome = ""

WorkerStarted == /\ Ev.e = "worker_started" /\ pending = ""
                 /\ worker' = Ev.worker /\ served' = 0
                 /\ UNCHANGED <<pending, outcome>>
TaskPut == /\ Ev.e = "task_put" /\ pending = "" /\ worker # 0
           /\ Ev.worker = worker
           /\ Ev.age = served + 1 /\ Ev.age <= Ev.rate
           /\ served' = served + 1 /\ pending' = Ev.id /\ outcome' = ""
           /\ UNCHANGED worker
ResultGot == /\ Ev.e = "result_got" /\ pending # "" /\ outcome = ""
             /\ outcome' = IF Ev.ok THEN "result" ELSE "failure"
             /\ UNCHANGED <<worker, served, pending>>
Died == /\ Ev.e = "died" /\ pending # "" /\ outcome = ""
        /\ outcome' = "died" /\ worker' = 0
        /\ UNCHANGED <<served, pending>>
TimedOut == /\ Ev.e = "timed_out" /\ pending # "" /\ outcome = ""
            /\ outcome' = "timeout" /\ worker' = 0
            /\ UNCHANGED <<served, pending>>
\* in-process comparisons (no task) are yielded directly
Yielded == /\ Ev.e = "yielded"
           /\ (pending # "" => (Ev.id = pending /\ outcome # ""))
           /\ (Ev.attached # "" => Ev.attached = Ev.id)
           /\ (outcome \in {"died", "timeout", "failure"} => Ev.status = "EqualizerFailure")
           /\ pending' = "" /\ outcome' = ""
           /\ UNCHANGED <<worker, served>>
Finally == /\ Ev.e = "finally" /\ pending = ""
           /\ UNCHANGED <<worker, served, pending, outcome>>

Next == /\ l <= Len(Trace)
        /\ (WorkerStarted \/ TaskPut \/ ResultGot \/ Died \/ TimedOut \/ Yielded \/ Finally)
        /\ l' = l + 1
        /\ UNCHANGED tid
Spec == Init /\ [][Next]_vars

Accepted == l = Len(Trace) + 1
Report == (Accepted => PrintT(<<"ACCEPT", Traces[tid].id>>)) /\ TRUE
=============================================================================
