------------------------------ MODULE InputKey ------------------------------
(***************************************************************************)
(* Which parts of an intercepted input call identify it.  A call is        *)
(*   alias kind (plain / formatted by an alias resolver with a parameter), *)
(*   static or instance function,                                          *)
(*   how each of the parameters x, y, k is passed (positionally, by        *)
(*   keyword, omitted) and with which value token,                         *)
(*   the capture selection of the decorator (all, none, by position, by    *)
(*   name, mixed),                                                         *)
(*   a presentation index: everything that must NOT matter (dict insertion *)
(*   order, values of arguments excluded from capture, hash seed).         *)
(* Value tokens stand for structurally distinct values (type-and-value     *)
(* equality; the harness builds them, with several presentations each).    *)
(*                                                                         *)
(* SpecKey transcribes the documented selection (tape_recorder.py,         *)
(* _input_interception_key): capture-all takes the positional arguments    *)
(* without the instance and every keyword argument; an explicit selection  *)
(* takes, per CapturedArg, the keyword argument of that name if one was    *)
(* passed, else the positional argument at its index; the key is           *)
(* <<resolved alias, captured positional values, captured keyword pairs    *)
(* sorted by name>>.  Two calls may share a stored input iff their         *)
(* SpecKeys are equal - this is what the harness compares with the real    *)
(* key strings, in one process and across hash seeds.                      *)
(***************************************************************************)
EXTENDS Naturals, Sequences, FiniteSets, TLC

CONSTANTS ValsX,   \* value tokens for parameter x (the rich set)
          ValsS,   \* value tokens for y and k (a small set)
          Pres     \* presentation indices

VARIABLES call, key
vars == <<call, key>>

Omit == "-"
Aliases  == {"plain", "res1", "res2"}          \* res<i>: alias template formatted by the resolver with parameter i
Captures == {"all", "none", "posx", "namek", "posx_namek", "posy"}

\* how parameters are passed: x positional / keyword / omitted; y positional only if x is positional
Shapes == {<<px, py, pk>> \in {"pos", "kw", Omit} \X {"pos", "kw", Omit} \X {"kw", Omit} :
              py = "pos" => px = "pos"}

Call(a, st, sh, x, y, k, cap, p) ==
    [alias |-> a, static |-> st, px |-> sh[1], py |-> sh[2], pk |-> sh[3],
     x |-> IF sh[1] = Omit THEN Omit ELSE x, y |-> IF sh[2] = Omit THEN Omit ELSE y,
     k |-> IF sh[3] = Omit THEN Omit ELSE k, capture |-> cap, pres |-> p]

\* positional arguments (without the instance) and keyword arguments of a call
PosArgs(c) == (IF c.px = "pos" THEN <<c.x>> ELSE <<>>) \o (IF c.py = "pos" THEN <<c.y>> ELSE <<>>)
KwPairs(c) == (IF c.pk = "kw" THEN <<<<"k", c.k>>>> ELSE <<>>)     \* sorted by name: k < x < y
              \o (IF c.px = "kw" THEN <<<<"x", c.x>>>> ELSE <<>>)
              \o (IF c.py = "kw" THEN <<<<"y", c.y>>>> ELSE <<>>)

\* one CapturedArg(position, name): keyword wins over position
CapOne(c, name, passed, val, byPos) ==
    IF passed = "kw" THEN [pos |-> <<>>, kw |-> <<<<name, val>>>>]
    ELSE IF passed = "pos" /\ byPos THEN [pos |-> <<val>>, kw |-> <<>>]
    ELSE [pos |-> <<>>, kw |-> <<>>]

SpecKey(c) ==
    CASE c.capture = "all"  -> <<c.alias, PosArgs(c), KwPairs(c)>>
      [] c.capture = "none" -> <<c.alias, <<>>, <<>>>>
      [] c.capture = "posx" -> LET a == CapOne(c, "x", c.px, c.x, TRUE) IN <<c.alias, a.pos, a.kw>>
      [] c.capture = "posy" -> LET a == CapOne(c, "y", c.py, c.y, TRUE) IN <<c.alias, a.pos, a.kw>>
      [] c.capture = "namek" -> LET a == CapOne(c, "k", c.pk, c.k, FALSE) IN <<c.alias, a.pos, a.kw>>
      [] c.capture = "posx_namek" ->
            LET a == CapOne(c, "x", c.px, c.x, TRUE)
                b == CapOne(c, "k", c.pk, c.k, FALSE)
            IN <<c.alias, a.pos \o b.pos, b.kw \o a.kw>>          \* k sorts before x

\* a positional CapturedArg must have its argument when it is not passed by keyword (else the key cannot be built)
Buildable(c) ==
    /\ (c.capture \in {"posx", "posx_namek"} => c.px # Omit)
    /\ (c.capture = "posy" => c.py # Omit)

NoKey == <<"nokey", <<>>, <<>>>>
Key(c) == IF Buildable(c) THEN SpecKey(c) ELSE NoKey

Init ==
    /\ \E a \in Aliases, st \in BOOLEAN, sh \in Shapes, x \in ValsX, y \in ValsS, k \in ValsS, cap \in Captures, p \in Pres :
          call = Call(a, st, sh, x, y, k, cap, p)
    \* a call whose key cannot be built (a positional capture the caller omitted) has *no* key: the recorder discards the
    \* recording / refuses the replay instead of inventing one from the remaining captures
    /\ key = Key(call)
Next == UNCHANGED vars
Spec == Init /\ [][Next]_vars

\* the key is a function of alias and captured values only
PresentationIndependent == key = Key([call EXCEPT !.pres = 1])
UncapturedIgnored ==
    /\ (call.capture = "none" => key = <<call.alias, <<>>, <<>>>>)
    /\ (call.capture = "posx" /\ call.py # Omit => key = Key([call EXCEPT !.y = "other"]))
    /\ (call.capture = "namek" /\ call.px # Omit => key = Key([call EXCEPT !.x = "other"]))
AliasInKey == Buildable(call) => key[1] = call.alias
NoKeyIffUnbuildable == (key = NoKey) <=> ~Buildable(call)
=============================================================================
