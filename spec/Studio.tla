------------------------------- MODULE Studio -------------------------------
(***************************************************************************)
(* PlaybackStudio.play(): selected recordings are grouped by category,     *)
(* every category gets its own tuning (playback function, extractor,       *)
(* comparator) from the tuner - or the tuner's error - and a lazily        *)
(* evaluated stream of comparisons; the caller may consume the streams in  *)
(* any interleaving.                                                       *)
(*   Play        grouping (explicit id list in any order) or lookup-driven *)
(*               selection (per category, skip incomplete, limit)          *)
(*   Consume(c)  the next comparison of category c is produced: the        *)
(*               recording is replayed with the tuning in force for c      *)
(* Constant SharedTuning = TRUE models the design variant in which the     *)
(* tuning is looked up when a stream is advanced instead of being bound to *)
(* the stream (so the most recently started category's tuning is used).    *)
(***************************************************************************)
EXTENDS Naturals, Sequences, FiniteSets, TLC

CONSTANTS Cats,        \* categories
          CatOf,       \* [recording number -> category] for the recordings in the cassette
          Incomplete,  \* set of recording numbers flagged incomplete
          Limits,      \* lookup limits (0 = none)
          MaxEdited,   \* at most this many categories whose code changed between recording and replay
          SharedTuning

VARIABLES mode, order, failing, edited, limit, todo, played, started, pc
vars == <<mode, order, failing, edited, limit, todo, played, started, pc>>

Recs == DOMAIN CatOf
Perms(S) == {p \in [1 .. Cardinality(S) -> S] : \A a, b \in 1 .. Cardinality(S) : a # b => p[a] # p[b]}
OfCat(seq, c) == SelectSeq(seq, LAMBDA r : CatOf[r] = c)
Min(a, b) == IF a < b THEN a ELSE b

Init ==
    /\ mode \in {"explicit", "lookup", "lookupall"}     \* lookupall: lookup that does not skip incomplete recordings
    /\ failing \in SUBSET Cats
    /\ edited \in {e \in SUBSET Cats : Cardinality(e) <= MaxEdited}
    /\ limit \in Limits
    /\ (mode = "explicit" => limit = 0)
    /\ order \in UNION {Perms(S) : S \in (SUBSET Recs) \ {{}}}
    /\ (mode # "explicit" => order = [k \in 1 .. Cardinality(Recs) |-> k])     \* lookup returns them in save order
    /\ todo = [c \in Cats |-> <<>>] /\ played = <<>> /\ started = <<>> /\ pc = "init"

\* what each category's stream will deliver
Selected(c) ==
    IF mode = "explicit" THEN OfCat(order, c)
    ELSE LET all == SelectSeq(order, LAMBDA r : CatOf[r] = c /\ (r \notin Incomplete \/ mode = "lookupall")) IN
         IF limit = 0 THEN all ELSE SubSeq(all, 1, Min(limit, Len(all)))

Play ==
    /\ pc = "init"
    /\ todo' = [c \in Cats |-> IF c \in failing THEN <<>> ELSE Selected(c)]
    /\ pc' = "playing"
    /\ UNCHANGED <<mode, order, failing, edited, limit, played, started>>

Consume(c) ==
    /\ pc = "playing" /\ todo[c] # <<>>
    /\ started' = IF \E k \in 1 .. Len(started) : started[k] = c THEN started ELSE Append(started, c)
    /\ LET tuning == IF SharedTuning THEN started'[Len(started')] ELSE c IN
       \* end to end: a recording replayed on unchanged code compares Equal, on code whose result changed Different
       \* (a recording cut short has no recorded result to compare with: Different)
       played' = Append(played, [rec |-> Head(todo[c]), stream |-> c, tuning |-> tuning,
                                 verdict |-> IF CatOf[Head(todo[c])] \in edited \/ Head(todo[c]) \in Incomplete
                                             THEN "Different" ELSE "Equal"])
    /\ todo' = [todo EXCEPT ![c] = Tail(@)]
    /\ UNCHANGED <<mode, order, failing, edited, limit, pc>>

Finish == /\ pc = "playing" /\ \A c \in Cats : todo[c] = <<>> /\ pc' = "done"
          /\ UNCHANGED <<mode, order, failing, edited, limit, todo, played, started>>

Next == Play \/ (\E c \in Cats : Consume(c)) \/ Finish
Spec == Init /\ [][Next]_vars

OwnTuning == \A k \in 1 .. Len(played) : played[k].tuning = CatOf[played[k].rec] /\ played[k].stream = CatOf[played[k].rec]
AtMostOnce == \A a, b \in 1 .. Len(played) : played[a].rec = played[b].rec => a = b
EachOnce == pc = "done" =>
    \A c \in Cats \ failing : \A r \in {Selected(c)[k] : k \in 1 .. Len(Selected(c))} :
        Cardinality({k \in 1 .. Len(played) : played[k].rec = r}) = 1
FailureIsLocal == \A k \in 1 .. Len(played) : CatOf[played[k].rec] \notin failing
\* regression detection end to end: exactly the recordings of changed code (and the cut-short ones) differ
VerdictsExact == \A k \in 1 .. Len(played) :
    (played[k].verdict = "Different") <=> (CatOf[played[k].rec] \in edited \/ played[k].rec \in Incomplete)
LookupStaysInCategory == mode # "explicit" => \A c \in Cats : \A k \in 1 .. Len(Selected(c)) : CatOf[Selected(c)[k]] = c
=============================================================================
