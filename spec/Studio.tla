------------------------------- MODULE Studio -------------------------------
(***************************************************************************)
(* PlaybackStudio.play(): selected recordings are grouped by category,     *)
(* every category gets its own tuning (playback function, extractor,       *)
(* comparator) from the tuner - or the tuner's error - and a lazily        *)
(* evaluated stream of comparisons; the caller may consume the streams in  *)
(* any interleaving.                                                       *)
(*   Play        grouping (explicit id list in any order) or lookup-driven *)
(*               selection (per category, skip incomplete, limit)          *)
(*   Consume(c)  the next comparison of category c is produced: the        *)
(*               recording is replayed with the tuning in force for c      *)
(* Constant SharedTuning = TRUE models the design variant in which the     *)
(* tuning is looked up when a stream is advanced instead of being bound to *)
(* the stream (so the most recently started category's tuning is used).    *)
(***************************************************************************)
EXTENDS Naturals, Sequences, FiniteSets, TLC

CONSTANTS Cats,        \* categories
          CatOf,       \* [recording number -> category] for the recordings in the cassette
          Incomplete,  \* set of recording numbers flagged incomplete
          Limits,      \* lookup limits (0 = none)
          SharedTuning

VARIABLES mode, order, failing, limit, todo, played, started, pc
vars == <<mode, order, failing, limit, todo, played, started, pc>>

Recs == DOMAIN CatOf
Perms(S) == {p \in [1 .. Cardinality(S) -> S] : \A a, b \in 1 .. Cardinality(S) : a # b => p[a] # p[b]}
OfCat(seq, c) == SelectSeq(seq, LAMBDA r : CatOf[r] = c)
Min(a, b) == IF a < b THEN a ELSE b

Init ==
    /\ mode \in {"explicit", "lookup"}
    /\ failing \in SUBSET Cats
    /\ limit \in Limits
    /\ (mode = "explicit" => limit = 0)
    /\ order \in UNION {Perms(S) : S \in (SUBSET Recs) \ {{}}}
    /\ (mode = "lookup" => order = [k \in 1 .. Cardinality(Recs) |-> k])     \* lookup returns them in save order
    /\ todo = [c \in Cats |-> <<>>] /\ played = <<>> /\ started = <<>> /\ pc = "init"

\* what each category's stream will deliver
Selected(c) ==
    IF mode = "explicit" THEN OfCat(order, c)
    ELSE LET all == SelectSeq(order, LAMBDA r : CatOf[r] = c /\ r \notin Incomplete) IN
         IF limit = 0 THEN all ELSE SubSeq(all, 1, Min(limit, Len(all)))

Play ==
    /\ pc = "init"
    /\ todo' = [c \in Cats |-> IF c \in failing THEN <<>> ELSE Selected(c)]
    /\ pc' = "playing"
    /\ UNCHANGED <<mode, order, failing, limit, played, started>>

Consume(c) ==
    /\ pc = "playing" /\ todo[c] # <<>>
    /\ started' = IF \E k \in 1 .. Len(started) : started[k] = c THEN started ELSE Append(started, c)
    /\ LET tuning == IF SharedTuning THEN started'[Len(started')] ELSE c IN
       played' = Append(played, [rec |-> Head(todo[c]), stream |-> c, tuning |-> tuning])
    /\ todo' = [todo EXCEPT ![c] = Tail(@)]
    /\ UNCHANGED <<mode, order, failing, limit, pc>>

Finish == /\ pc = "playing" /\ \A c \in Cats : todo[c] = <<>> /\ pc' = "done"
          /\ UNCHANGED <<mode, order, failing, limit, todo, played, started>>

Next == Play \/ (\E c \in Cats : Consume(c)) \/ Finish
Spec == Init /\ [][Next]_vars

OwnTuning == \A k \in 1 .. Len(played) : played[k].tuning = CatOf[played[k].rec] /\ played[k].stream = CatOf[played[k].rec]
AtMostOnce == \A a, b \in 1 .. Len(played) : played[a].rec = played[b].rec => a = b
EachOnce == pc = "done" =>
    \A c \in Cats \ failing : \A r \in {Selected(c)[k] : k \in 1 .. Len(Selected(c))} :
        Cardinality({k \in 1 .. Len(played) : played[k].rec = r}) = 1
FailureIsLocal == \A k \in 1 .. Len(played) : CatOf[played[k].rec] \notin failing
LookupStaysInCategory == mode = "lookup" => \A c \in Cats : \A k \in 1 .. Len(Selected(c)) : CatOf[Selected(c)[k]] = c
=============================================================================
