----------------------------- MODULE AsyncTrace -----------------------------
(***************************************************************************)
(* Observable-level specification of asynchronous recording, used to       *)
(* validate executions of the real AsyncRecordOnlyTapeCassette (events     *)
(* logged in the single total order in which they happened under the       *)
(* deterministic scheduler, or under the cassette's lock by the hooks):    *)
(*   req(o)    a caller's request o entered the buffer                     *)
(*   app(o)    the wrapped storage applied o                               *)
(*   fail(o)   the wrapped storage raised on o (logged and skipped)        *)
(*   close     close() returned                                            *)
(* Abstract state: `pending', the FIFO of requests not yet handed to the   *)
(* storage.  Each request is handed over exactly once, in request order;   *)
(* at close nothing is pending.  Many traces are validated in one TLC run: *)
(* the traces file is a JSON array; variable tid picks one, l walks it.    *)
(***************************************************************************)
EXTENDS Naturals, Sequences, TLC, Json, IOUtils

Traces == JsonDeserialize(IOEnv.TRACE_FILE)

VARIABLES tid, l, pending, closed
vars == <<tid, l, pending, closed>>

Trace == Traces[tid].events
Ev    == Trace[l]

Init == /\ tid \in 1 .. Len(Traces)
        /\ l = 1 /\ pending = <<>> /\ closed = FALSE

Req == /\ Ev.e = "req" /\ ~closed
       /\ pending' = Append(pending, Ev.o)
       /\ UNCHANGED closed
\* the storage sees the oldest pending request - applied or failed, never skipped, never reordered, never repeated
Out == /\ Ev.e \in {"app", "fail"} /\ ~closed
       /\ pending # <<>> /\ Head(pending) = Ev.o
       /\ pending' = Tail(pending)
       /\ UNCHANGED closed
Close == /\ Ev.e = "close" /\ pending = <<>>
         /\ closed' = TRUE
         /\ UNCHANGED pending

Next == /\ l <= Len(Trace)
        /\ (Req \/ Out \/ Close)
        /\ l' = l + 1
        /\ UNCHANGED tid
Spec == Init /\ [][Next]_vars

\* a trace is accepted iff TLC can consume all of its events
Accepted == l = Len(Trace) + 1
Report == (Accepted => PrintT(<<"ACCEPT", Traces[tid].id>>)) /\ TRUE
=============================================================================
