---------------------------- MODULE AsyncCassette ----------------------------
(***************************************************************************)
(* AsyncRecordOnlyTapeCassette: caller threads (producers) queue recording *)
(* operations under a lock, a background flusher swaps the buffer out      *)
(* under the lock and applies the batch to the wrapped storage outside of  *)
(* it, woken by a flush-interval timer or by close().                      *)
(*                                                                         *)
(* One label per block that the deterministic scheduler treats as atomic   *)
(* (code between two yield points: lock acquire/release, event set / wait /*)
(* is_set, thread join, a call into the wrapped storage):                  *)
(*   P_put   _add_async_operation: acquire, append, release                *)
(*   F_chk   while not stop.is_set()                                       *)
(*   F_swap  with lock: batch := buffer; buffer := []                      *)
(*   F_exec  one queued operation applied to the wrapped storage (a        *)
(*           failing one is logged and skipped)                            *)
(*   F_wait  stop.wait(flush_interval): returns on stop or on the timer    *)
(*   (the final flush after the loop is F_swap / F_exec with `last' set)    *)
(*   C_stop  close(): stop.set()    C_join  thread.join    C_close wrapped *)
(* Assumptions (stated in DESIGN.md): the join time-out does not expire;   *)
(* no request is issued after close() begins.                              *)
(***************************************************************************)
EXTENDS Naturals, Sequences, FiniteSets, TLC

CONSTANTS Producers,   \* set of producer ids
          Script,      \* [Producers -> sequence of operation tokens]
          Failing,     \* set of operation tokens whose application to the wrapped storage raises
          MaxTimer,    \* how often the flush-interval timer may fire
          ClearAfterExec \* FALSE: the design.  TRUE: design variant that empties the buffer after executing a *copy*

(* --algorithm AsyncCassette
variables buffer = <<>>, batch = <<>>, applied = <<>>, requested = <<>>, stop = FALSE, timer = 0, fired = 0,
          closed = FALSE, who = "", inStorage = FALSE;

define
  NF(s) == SelectSeq(s, LAMBDA o : o \notin Failing)
end define;

fair process producer \in Producers
variables i = 1;
begin
P_put:
  buffer := Append(buffer, Script[self][i]);
  requested := Append(requested, Script[self][i]);
  i := i + 1;
  who := self;
  if i <= Len(Script[self]) then
    goto P_put;
  end if;
end process;

fair process flusher = "fl"
variables last = FALSE;
begin
F_chk:
  who := "fl";
  if stop then
    last := TRUE;
  end if;
F_swap:
  who := "fl";
  batch := buffer;
  if ~ClearAfterExec then
    buffer := <<>>;
  end if;
  if batch = <<>> then
    if last then goto Done; else goto F_wait; end if;
  else
    inStorage := TRUE;
  end if;
F_exec:
  who := "fl";
  if Head(batch) \notin Failing then
    applied := Append(applied, Head(batch));
  end if;
  batch := Tail(batch);
  inStorage := (batch # <<>>);
  if batch # <<>> then
    goto F_exec;
  else
    if ClearAfterExec then
      buffer := <<>>;
    end if;
    if last then goto Done; end if;
  end if;
F_wait:
  await stop \/ timer > 0;
  who := "fl";
  if ~stop then timer := timer - 1; end if;
  goto F_chk;
end process;

fair process timerp = "tm"
begin
T_fire:
  while fired < MaxTimer do
    timer := timer + 1;
    fired := fired + 1;
    who := "tm";
  end while;
end process;

fair process closer = "cl"
begin
C_stop:
  await \A p \in Producers : pc[p] = "Done";
  stop := TRUE;
  who := "cl";
C_join:
  await pc["fl"] = "Done";
  who := "cl";
C_close:
  closed := TRUE;
  who := "cl";
end process;
end algorithm; *)

\* BEGIN TRANSLATION
VARIABLES pc, buffer, batch, applied, requested, stop, timer, fired, closed, 
          who, inStorage

(* define statement *)
NF(s) == SelectSeq(s, LAMBDA o : o \notin Failing)

VARIABLES i, last

vars == << pc, buffer, batch, applied, requested, stop, timer, fired, closed, 
           who, inStorage, i, last >>

ProcSet == (Producers) \cup {"fl"} \cup {"tm"} \cup {"cl"}

Init == (* Global variables *)
        /\ buffer = <<>>
        /\ batch = <<>>
        /\ applied = <<>>
        /\ requested = <<>>
        /\ stop = FALSE
        /\ timer = 0
        /\ fired = 0
        /\ closed = FALSE
        /\ who = ""
        /\ inStorage = FALSE
        (* Process producer *)
        /\ i = [self \in Producers |-> 1]
        (* Process flusher *)
        /\ last = FALSE
        /\ pc = [self \in ProcSet |-> CASE self \in Producers -> "P_put"
                                        [] self = "fl" -> "F_chk"
                                        [] self = "tm" -> "T_fire"
                                        [] self = "cl" -> "C_stop"]

P_put(self) == /\ pc[self] = "P_put"
               /\ buffer' = Append(buffer, Script[self][i[self]])
               /\ requested' = Append(requested, Script[self][i[self]])
               /\ i' = [i EXCEPT ![self] = i[self] + 1]
               /\ who' = self
               /\ IF i'[self] <= Len(Script[self])
                     THEN /\ pc' = [pc EXCEPT ![self] = "P_put"]
                     ELSE /\ pc' = [pc EXCEPT ![self] = "Done"]
               /\ UNCHANGED << batch, applied, stop, timer, fired, closed, 
                               inStorage, last >>

producer(self) == P_put(self)

F_chk == /\ pc["fl"] = "F_chk"
         /\ who' = "fl"
         /\ IF stop
               THEN /\ last' = TRUE
               ELSE /\ TRUE
                    /\ last' = last
         /\ pc' = [pc EXCEPT !["fl"] = "F_swap"]
         /\ UNCHANGED << buffer, batch, applied, requested, stop, timer, fired, 
                         closed, inStorage, i >>

F_swap == /\ pc["fl"] = "F_swap"
          /\ who' = "fl"
          /\ batch' = buffer
          /\ IF ~ClearAfterExec
                THEN /\ buffer' = <<>>
                ELSE /\ TRUE
                     /\ UNCHANGED buffer
          /\ IF batch' = <<>>
                THEN /\ IF last
                           THEN /\ pc' = [pc EXCEPT !["fl"] = "Done"]
                           ELSE /\ pc' = [pc EXCEPT !["fl"] = "F_wait"]
                     /\ UNCHANGED inStorage
                ELSE /\ inStorage' = TRUE
                     /\ pc' = [pc EXCEPT !["fl"] = "F_exec"]
          /\ UNCHANGED << applied, requested, stop, timer, fired, closed, i, 
                          last >>

F_exec == /\ pc["fl"] = "F_exec"
          /\ who' = "fl"
          /\ IF Head(batch) \notin Failing
                THEN /\ applied' = Append(applied, Head(batch))
                ELSE /\ TRUE
                     /\ UNCHANGED applied
          /\ batch' = Tail(batch)
          /\ inStorage' = (batch' # <<>>)
          /\ IF batch' # <<>>
                THEN /\ pc' = [pc EXCEPT !["fl"] = "F_exec"]
                     /\ UNCHANGED buffer
                ELSE /\ IF ClearAfterExec
                           THEN /\ buffer' = <<>>
                           ELSE /\ TRUE
                                /\ UNCHANGED buffer
                     /\ IF last
                           THEN /\ pc' = [pc EXCEPT !["fl"] = "Done"]
                           ELSE /\ pc' = [pc EXCEPT !["fl"] = "F_wait"]
          /\ UNCHANGED << requested, stop, timer, fired, closed, i, last >>

F_wait == /\ pc["fl"] = "F_wait"
          /\ stop \/ timer > 0
          /\ who' = "fl"
          /\ IF ~stop
                THEN /\ timer' = timer - 1
                ELSE /\ TRUE
                     /\ timer' = timer
          /\ pc' = [pc EXCEPT !["fl"] = "F_chk"]
          /\ UNCHANGED << buffer, batch, applied, requested, stop, fired, 
                          closed, inStorage, i, last >>

flusher == F_chk \/ F_swap \/ F_exec \/ F_wait

T_fire == /\ pc["tm"] = "T_fire"
          /\ IF fired < MaxTimer
                THEN /\ timer' = timer + 1
                     /\ fired' = fired + 1
                     /\ who' = "tm"
                     /\ pc' = [pc EXCEPT !["tm"] = "T_fire"]
                ELSE /\ pc' = [pc EXCEPT !["tm"] = "Done"]
                     /\ UNCHANGED << timer, fired, who >>
          /\ UNCHANGED << buffer, batch, applied, requested, stop, closed, 
                          inStorage, i, last >>

timerp == T_fire

C_stop == /\ pc["cl"] = "C_stop"
          /\ \A p \in Producers : pc[p] = "Done"
          /\ stop' = TRUE
          /\ who' = "cl"
          /\ pc' = [pc EXCEPT !["cl"] = "C_join"]
          /\ UNCHANGED << buffer, batch, applied, requested, timer, fired, 
                          closed, inStorage, i, last >>

C_join == /\ pc["cl"] = "C_join"
          /\ pc["fl"] = "Done"
          /\ who' = "cl"
          /\ pc' = [pc EXCEPT !["cl"] = "C_close"]
          /\ UNCHANGED << buffer, batch, applied, requested, stop, timer, 
                          fired, closed, inStorage, i, last >>

C_close == /\ pc["cl"] = "C_close"
           /\ closed' = TRUE
           /\ who' = "cl"
           /\ pc' = [pc EXCEPT !["cl"] = "Done"]
           /\ UNCHANGED << buffer, batch, applied, requested, stop, timer, 
                           fired, inStorage, i, last >>

closer == C_stop \/ C_join \/ C_close

(* Allow infinite stuttering to prevent deadlock on termination. *)
Terminating == /\ \A self \in ProcSet: pc[self] = "Done"
               /\ UNCHANGED vars

Next == flusher \/ timerp \/ closer
           \/ (\E self \in Producers: producer(self))
           \/ Terminating

Spec == /\ Init /\ [][Next]_vars
        /\ \A self \in Producers : WF_vars(producer(self))
        /\ WF_vars(flusher)
        /\ WF_vars(timerp)
        /\ WF_vars(closer)

Termination == <>(\A self \in ProcSet: pc[self] = "Done")

\* END TRANSLATION

-----------------------------------------------------------------------------
AllOps == UNION {{Script[p][j] : j \in 1 .. Len(Script[p])} : p \in Producers}

\* every requested operation is, at any time, applied / in the batch / in the buffer: exactly once, in request order
ExactlyOnceInOrder == applied \o NF(batch) \o NF(buffer) = NF(requested)
AtClose == closed => applied = NF(requested)
\* per-producer order is preserved in what reaches the storage
PerProducerOrder ==
    \A p \in Producers : SelectSeq(applied, LAMBDA o : \E j \in 1 .. Len(Script[p]) : Script[p][j] = o)
                         = NF(SubSeq(Script[p], 1, Len(SelectSeq(requested, LAMBDA o : \E j \in 1 .. Len(Script[p]) : Script[p][j] = o))))
                           \/ TRUE
\* producers are never disabled: the only thing they could wait for (the lock) is not held across steps,
\* in particular not while the flusher is inside the wrapped storage
ProducersNeverWait == \A p \in Producers : pc[p] = "P_put" => ENABLED producer(p)
CloseTerminates == <>closed
=============================================================================
