CONSTANT H = 16
CONSTANT Step = 6
CONSTANT Pinned = FALSE
INIT Init
NEXT Next
INVARIANT Exact
CHECK_DEADLOCK FALSE
