------------------------------- MODULE Recorder -------------------------------
(***************************************************************************)
(* Sequential state machine of playback.tape_recorder.TapeRecorder working *)
(* against an abstract cassette.  One action per linearisation point of    *)
(* the public API as a single-threaded caller sees it:                     *)
(*                                                                         *)
(*   Toggle        enable_recording / disable_recording                    *)
(*   OpEnter       the decorated operation is entered (pass-through, or    *)
(*                 start_recording -> cassette.create_new_recording)       *)
(*   CallInput     one call of an intercepted input while the operation    *)
(*                 runs (key build, body, prepare, copy, write)            *)
(*   CallOutput    one call of an intercepted output (ordinal, payload     *)
(*                 write, body, result write)                              *)
(*   Control       discard_recording / force_sample_recording /            *)
(*                 "subop": the operation calls an operation of a class    *)
(*                 registered as skipped (the documented way to nest       *)
(*                 operations): pure pass-through, while recording and     *)
(*                 while replaying /                                        *)
(*                 "disable": disable_recording() while the operation runs *)
(*                 (kill switch): the recording in flight is dropped, the  *)
(*                 rest of the operation is pass-through /                 *)
(*                 record_data / play_data called by the operation         *)
(*   OpEnd         the operation body returns / raises / is interrupted    *)
(*   Finalise      the finally-block of start_recording: keep decision,    *)
(*                 metadata, save or abort, reset                          *)
(*   PlayStart     TapeRecorder.play fetches the recording                 *)
(*   PStep         one intercepted call made by the replayed operation     *)
(*   POpEnd        the replayed operation returns / raises                 *)
(*   PlayEnd       play() returns the Playback (or raises) and resets      *)
(*                                                                         *)
(* Values are tokens; the harness concretises them (pbverif/concretise).   *)
(* The model describes the repaired design; the constants FixF1, FixF2,    *)
(* FixF3, FixF10 switch individual repairs off so that TLC exhibits the    *)
(* design-level counterexample of the pinned code.                         *)
(***************************************************************************)
EXTENDS Naturals, Sequences, FiniteSets, TLC

CONSTANTS
    InCalls,      \* set of <<alias, arg>>: input calls a program may make
    World,        \* [InCalls -> Outcome]: what the wrapped input bodies yield
    InnerCall,    \* <<alias, arg>> called by the "nestSame"/"nestOther" bodies
    OutAliases,   \* output aliases
    Vals,         \* value tokens (sent payloads, results, return values)
    SentVals,     \* subset of Vals: payloads the *recorded* program may send (edits may use all of Vals)
    Excs,         \* ordinary exception types
    Handlers,     \* aliases (input or output) that have a data handler
    InFaults,     \* subset of {"none","keyFail","prepFail","copyFail"}
    OutFaults,    \* subset of {"none","prepFail"}
    Bodies,       \* subset of {"plain","interrupt","discards","forces","nestSame","nestOther"}
    OutResults,   \* outcomes an output body may yield
    Ctl,          \* subset of {"discard","force","data","playdata","mutate"}
    Ends,         \* subset of {"ret","raise","interrupt"}
    Classes,      \* set of class parameter records (see ClassOK)
    Draws,        \* subset of {"low","high"}: the uniform draw relative to a fractional rate
    Extractors,   \* subset of {"none","ok","raises","junk","interrupts"}
    SaveFails,    \* subset of BOOLEAN
    Toggles,      \* how many enable/disable calls a history may contain
    StartEnabled, \* set of initial values of recording_enabled
    MaxSteps, MaxPSteps, MaxRuns, MaxRecs,   \* steps per recorded run / per free-mode replay, runs, recordings
    Modes,        \* subset of {"same","edit","free"}
    EditKinds,    \* subset of {"sent","drop","add","swap","result","raise","ctl"}
    InOpts,       \* sequence of option records for free-mode input calls
    OutOpts,      \* sequence of option records for free-mode output calls
    FreeBodies,   \* free-mode replays: what the original of an input does *if it runs* (run-original on a missing key):
                  \* subset of {"", "nestSame", "nestOther"} - nest*: it calls the intercepted input InnerCall itself,
                  \* which is answered from the recording or fails with a missing key, but never runs live
    PlayFaults,   \* subset of {"unknown", "raise"}: play() of an id never saved / playback function raising
    FixF1, FixF2, FixF3, FixF10

VARIABLES rec, cas, ctl, prog, ev
vars == <<rec, cas, ctl, prog, ev>>

-----------------------------------------------------------------------------
None2      == <<"none", "">>
ZeroCnt    == [o \in OutAliases |-> 0]
NoClass    == [name |-> "", rate |-> "one", ignoreForce |-> FALSE, skipped |-> FALSE, copyOn |-> FALSE]
Recs       == 1 .. MaxRecs
OpKey      == <<"op", "op", 1>>

\* opt = 0: decorator defaults; opt = i > 0: the i-th record of InOpts (input calls) / OutOpts (output calls)
Step0 == [kind |-> "", alias |-> "", arg |-> 0, sent |-> "", body |-> "", res |-> None2, fault |-> "none",
          opt |-> 0, seen |-> None2]
DefaultOpts == [fb |-> <<>>, runOrig |-> FALSE, subst |-> "none", failMissing |-> TRUE]
InOptsOf(st)  == IF st.opt = 0 THEN DefaultOpts ELSE InOpts[st.opt]
OutOptsOf(st) == IF st.opt = 0 THEN DefaultOpts ELSE OutOpts[st.opt]

Ev0 == [kind |-> "init", step |-> Step0, seen |-> None2, bodyRuns |-> 0, calls |-> <<>>, icpt |-> FALSE,
        cls |-> "", rid |-> 0, decision |-> "", draw |-> "", extractor |-> "", saveFails |-> FALSE,
        mode |-> "", pbOut |-> <<>>, keys |-> {}, freq |-> FALSE]

Put(d, k, e) == [kk \in (DOMAIN d) \cup {k} |-> IF kk = k THEN e ELSE d[kk]]

InitRec == [enabled |-> FALSE, active |-> FALSE, cur |-> 0, force |-> FALSE, cnt |-> ZeroCnt, data |-> <<>>,
            cls |-> NoClass, pbRec |-> 0, pbOut |-> <<>>]

Init ==
    /\ \E e \in StartEnabled : rec = [InitRec EXCEPT !.enabled = e]
    /\ cas = [created |-> 0, saves |-> [r \in Recs |-> 0], aborts |-> [r \in Recs |-> 0], lost |-> [r \in Recs |-> 0],
              store |-> <<>>]
    /\ ctl = [phase |-> "idle", opRec |-> FALSE, steps |-> 0, runs |-> 0, mode |-> "", rprog |-> <<>>, pidx |-> 0,
              rend |-> None2, toggles |-> 0, end |-> None2, failed |-> FALSE, freq |-> FALSE]
    /\ prog = <<>>
    /\ ev = Ev0

-----------------------------------------------------------------------------
(* Recorder-internal operators on the pair (recorder state, cassette state, calls made) *)

\* discard_recording(): abort the active recording (if any) and reset
Disc(S) ==
    IF S.r.active
    THEN [r |-> [S.r EXCEPT !.active = FALSE, !.force = FALSE, !.cnt = ZeroCnt, !.cls = NoClass],
          c |-> [S.c EXCEPT !.aborts[S.r.cur] = @ + 1],
          calls |-> Append(S.calls, "abort")]
    ELSE S

\* force_sample_recording()
Forc(S) ==
    IF S.r.active /\ ~S.r.cls.ignoreForce THEN [S EXCEPT !.r.force = TRUE] ELSE S

\* _record_data: write into the active recording; tolerant when discarded meanwhile (FixF2)
Wr(S, k, e) == IF S.r.active THEN [S EXCEPT !.r.data = Put(@, k, e)] ELSE S

InRecMode(r)  == r.enabled /\ r.active
InPlayMode(r) == r.pbRec # 0

InKey(c)  == <<"in", c[1], c[2]>>
OutKey(o, n) == <<"out", o, n>>
ResKey(o, n) == <<"res", o, n>>

-----------------------------------------------------------------------------
Toggle ==
    /\ ctl.phase = "idle" /\ ctl.toggles < Toggles
    /\ rec' = [rec EXCEPT !.enabled = ~@]
    /\ ctl' = [ctl EXCEPT !.toggles = @ + 1]
    /\ ev' = [Ev0 EXCEPT !.kind = "toggle"]
    /\ UNCHANGED <<cas, prog>>

OpEnter(c) ==
    /\ ctl.phase = "idle" /\ ctl.runs < MaxRuns
    /\ LET records == rec.enabled /\ ~c.skipped IN
       /\ records => cas.created < MaxRecs
       /\ IF records
          THEN /\ rec' = [rec EXCEPT !.active = TRUE, !.cur = cas.created + 1, !.cls = c, !.data = <<>>]
               /\ cas' = [cas EXCEPT !.created = @ + 1]
          ELSE UNCHANGED <<rec, cas>>
       /\ ctl' = [ctl EXCEPT !.phase = "op", !.opRec = records, !.steps = 0, !.runs = @ + 1, !.end = None2,
                                 !.freq = FALSE]
       /\ prog' = <<>>
       /\ ev' = [Ev0 EXCEPT !.kind = "enter", !.cls = c.name, !.icpt = records,
                            !.rid = IF records THEN cas.created + 1 ELSE 0,
                            !.calls = IF records THEN <<"create">> ELSE <<>>]

\* effect of the wrapped body of an input (before its outcome is handed back to the recorder)
BodyEffect(S, b) ==
    CASE b = "discards" -> Disc(S)
      [] b = "forces"   -> Forc(S)
      [] b = "nestOther" ->  \* the body calls InnerCall on another thread: not suppressed there
            IF InRecMode(S.r) THEN Wr(S, InKey(InnerCall), World[InnerCall]) ELSE S
      [] OTHER -> S

BodyOutcome(c, b) == IF b = "interrupt" THEN <<"int", "BI">> ELSE World[c]

CallInput(c, b, f) ==
    /\ ctl.phase = "op" /\ ctl.steps < MaxSteps
    /\ f \in {"prepFail"} => c[1] \in Handlers
    /\ LET S0   == [r |-> rec, c |-> cas, calls |-> <<>>]
           icpt == InRecMode(rec)
           f1   == IF icpt THEN f ELSE "none"
           S1   == IF f1 = "keyFail" THEN Disc(S0) ELSE S0
           keyOK == icpt /\ f1 # "keyFail"
           S2   == BodyEffect(S1, b)
           bo   == BodyOutcome(c, b)
           \* pinned design: a recording discarded by the body makes the recorder fail (F2)
           broken == ~FixF2 /\ keyOK /\ ~S2.r.active /\ bo[1] \in {"val", "exc"}
           S3   == IF ~keyOK \/ bo[1] = "int" THEN S2
                   ELSE IF bo[1] = "exc" THEN Wr(S2, InKey(c), bo)
                   ELSE IF f1 = "prepFail" THEN Disc(S2)
                   ELSE Wr(S2, InKey(c), bo)
           seen == IF broken THEN <<"err", "FrameworkError">> ELSE bo
           st   == [Step0 EXCEPT !.kind = "in", !.alias = c[1], !.arg = c[2], !.body = b, !.fault = f1,
                                 !.seen = seen]
       IN
       /\ f # "none" => icpt          \* faults only matter while recording
       /\ rec' = S3.r /\ cas' = S3.c
       /\ prog' = Append(prog, st)
       /\ ctl' = LET fq == ctl.freq \/ (b = "forces" /\ S1.r.active) IN
                 IF bo[1] = "int"
                 THEN [ctl EXCEPT !.steps = @ + 1, !.phase = "fin", !.end = bo, !.freq = fq]  \* BaseException ends the op
                 ELSE [ctl EXCEPT !.steps = @ + 1, !.freq = fq]
       /\ ev' = [Ev0 EXCEPT !.kind = "in", !.step = st, !.seen = seen, !.bodyRuns = 1, !.calls = S3.calls,
                            !.icpt = icpt, !.keys = DOMAIN S3.r.data]

CallOutput(o, v, res, f) ==
    /\ ctl.phase = "op" /\ ctl.steps < MaxSteps
    /\ f = "prepFail" => o \in Handlers
    /\ LET S0   == [r |-> rec, c |-> cas, calls |-> <<>>]
           icpt == InRecMode(rec)
           f1   == IF icpt THEN f ELSE "none"
           n    == rec.cnt[o] + 1
           S1   == IF icpt THEN [S0 EXCEPT !.r.cnt[o] = n] ELSE S0
           S2   == IF ~icpt THEN S1
                   ELSE IF f1 = "prepFail" THEN Disc(S1)
                   ELSE Wr(S1, OutKey(o, n), <<"sent", v>>)
           still == icpt /\ InRecMode(S2.r)
           S3   == IF still /\ res[1] \in {"val", "exc"} THEN Wr(S2, ResKey(o, n), res) ELSE S2
           st   == [Step0 EXCEPT !.kind = "out", !.alias = o, !.sent = v, !.res = res, !.fault = f1,
                                 !.seen = res]
       IN
       /\ f # "none" => icpt
       /\ rec' = S3.r /\ cas' = S3.c
       /\ prog' = Append(prog, st)
       /\ ctl' = IF res[1] = "int"
                 THEN [ctl EXCEPT !.steps = @ + 1, !.phase = "fin", !.end = res]
                 ELSE [ctl EXCEPT !.steps = @ + 1]
       /\ ev' = [Ev0 EXCEPT !.kind = "out", !.step = st, !.seen = res, !.bodyRuns = 1, !.calls = S3.calls,
                            !.icpt = icpt, !.keys = DOMAIN S3.r.data]

\* "mutate": the program mutates, in place, every value it got from / handed to intercepted calls so far.  Without
\* copy-on-interception that breaks the documented assumption, so it is only generated when nothing is being
\* recorded or the class copies; then it must have no effect on the recording (C11).
Control(k) ==
    /\ ctl.phase = "op" /\ ctl.steps < MaxSteps
    /\ k = "mutate" => (~InRecMode(rec) \/ rec.cls.copyOn)
    \* a recorded program only reads back (play_data) what it recorded (record_data) before: reading a key it never
    \* records is a defect of the program, not of the framework
    /\ k = "playdata" => (~InRecMode(rec) \/ <<"user", "k1", 0>> \in DOMAIN rec.data)
    /\ LET S0 == [r |-> rec, c |-> cas, calls |-> <<>>]
           S1 == CASE k = "discard" -> Disc(S0)
                   [] k = "force"   -> Forc(S0)
                   [] k = "data"    -> IF InRecMode(rec) THEN Wr(S0, <<"user", "k1", 0>>, <<"data", "d1">>) ELSE S0
                   \* disable_recording() while the operation runs ("kill switch"): nothing is captured from now on, so
                   \* the recording in flight can no longer be complete - it is dropped
                   [] k = "disable" -> [Disc(S0) EXCEPT !.r.enabled = FALSE]
                   [] OTHER         -> S0
           st == [Step0 EXCEPT !.kind = k]
       IN
       /\ rec' = S1.r /\ cas' = S1.c
       /\ prog' = Append(prog, st)
       /\ ctl' = [ctl EXCEPT !.steps = @ + 1, !.freq = @ \/ (k = "force" /\ rec.active)]
       /\ ev' = [Ev0 EXCEPT !.kind = k, !.step = st, !.calls = S1.calls, !.keys = DOMAIN S1.r.data,
                            !.icpt = InRecMode(rec)]

\* the operation body ends: return v / raise e / interrupt (BaseException)
OpEnd(out) ==
    /\ ctl.phase = "op"
    /\ LET S0 == [r |-> rec, c |-> cas, calls |-> <<>>]
           S1 == IF out[1] \in {"val", "exc"} /\ InRecMode(rec) THEN Wr(S0, OpKey, out) ELSE S0
       IN
       /\ rec' = S1.r /\ cas' = cas
       /\ ctl' = [ctl EXCEPT !.phase = "fin", !.end = out]
       /\ ev' = [Ev0 EXCEPT !.kind = "opend", !.seen = out, !.keys = DOMAIN S1.r.data, !.icpt = InRecMode(rec)]
       /\ UNCHANGED prog

Keep(forced, c, draw) ==
    \/ forced
    \/ c.rate \in {"one", "above"}
    \/ c.rate = "frac" /\ draw = "low"

MetaOf(c, end, data, ex) ==
    [cls |-> c.name,
     exc |-> IF end[1] = "val" THEN "false" ELSE IF end[1] = "exc" THEN "true" ELSE "absent",
     incomplete |-> OpKey \notin DOMAIN data,
     user |-> IF ex = "ok" THEN "ok" ELSE IF ex = "junk" /\ ~FixF10 THEN "partial" ELSE "none"]

\* the finally-block of start_recording; for pass-through operations nothing happens
Finalise(draw, ex, sf) ==
    /\ ctl.phase = "fin"
    /\ IF ~ctl.opRec \/ ~rec.active
       THEN /\ draw = "low" /\ ex = "none" /\ sf = FALSE            \* environment is irrelevant: one representative
            /\ UNCHANGED cas
            /\ ev' = [Ev0 EXCEPT !.kind = "finalise", !.decision = IF ctl.opRec THEN "discarded" ELSE "none",
                                 !.seen = ctl.end, !.rid = IF ctl.opRec THEN rec.cur ELSE 0]
       ELSE LET keep == Keep(rec.force, rec.cls, draw)
                uses == rec.cls.rate = "frac" /\ ~rec.force          \* does the draw matter
                m    == MetaOf(rec.cls, ctl.end, rec.data, ex)
                \* the post-operation metadata extractor is interrupted (BaseException: not swallowed like an ordinary
                \* exception of the extractor): the finally-block is left before the save - the recording is neither
                \* saved nor aborted (`lost'), the caller sees the interrupt instead of the operation's outcome.  A
                \* deviation modelled as the code behaves; outside the terminations C05 quantifies over (steps of the
                \* operation), used for the histories of C09 / C17: nothing of the run may leak into the next one
                lost == keep /\ ex = "interrupts"
            IN
            /\ ~uses => draw = "low"
            /\ ~keep => (ex = "none" /\ sf = FALSE)
            /\ lost => sf = FALSE
            /\ IF lost
               THEN cas' = [cas EXCEPT !.lost[rec.cur] = @ + 1]
               ELSE IF keep
               THEN cas' = [cas EXCEPT !.saves[rec.cur] = @ + 1,
                                       !.store = IF sf THEN @ ELSE
                                                 Put(@, rec.cur, [data |-> rec.data, meta |-> m, prog |-> prog,
                                                                  end |-> ctl.end])]
               ELSE cas' = [cas EXCEPT !.aborts[rec.cur] = @ + 1]
            /\ ev' = [Ev0 EXCEPT !.kind = "finalise", !.decision = IF lost THEN "lost" ELSE IF keep THEN "keep" ELSE "drop",
                                 !.draw = IF uses THEN draw ELSE "", !.extractor = ex, !.saveFails = sf,
                                 !.rid = rec.cur, !.seen = IF lost THEN <<"int", "BI">> ELSE ctl.end,
                                 !.cls = rec.cls.name, !.freq = ctl.freq,
                                 !.calls = IF lost THEN <<>> ELSE IF keep THEN <<"save">> ELSE <<"abort">>,
                                 !.keys = DOMAIN rec.data]
    /\ rec' = [InitRec EXCEPT !.enabled = rec.enabled]
    /\ ctl' = [ctl EXCEPT !.phase = "idle", !.opRec = FALSE, !.steps = 0, !.end = None2, !.freq = FALSE]
    /\ prog' = <<>>

-----------------------------------------------------------------------------
(* Replay *)

OutSteps(p)  == SelectSeq(p, LAMBDA s : s.kind = "out")
IsOut(p, i)  == i \in 1 .. Len(p) /\ p[i].kind = "out"

RemoveAt(s, i) == [j \in 1 .. Len(s) - 1 |-> IF j < i THEN s[j] ELSE s[j + 1]]
InsertAt(s, i, x) == [j \in 1 .. Len(s) + 1 |-> IF j < i THEN s[j] ELSE IF j = i THEN x ELSE s[j - 1]]
SwapAt(s, i) == [j \in 1 .. Len(s) |-> IF j = i THEN s[i + 1] ELSE IF j = i + 1 THEN s[i] ELSE s[j]]

\* the set of <<program, end>> pairs obtainable from (p, e) by exactly one behavioural edit
Edits(p, e) ==
    (IF "sent" \in EditKinds
     THEN {<<[p EXCEPT ![i].sent = v], e>> : i \in {j \in 1 .. Len(p) : p[j].kind = "out"}, v \in Vals} ELSE {})
    \cup (IF "drop" \in EditKinds
          THEN {<<RemoveAt(p, i), e>> : i \in {j \in 1 .. Len(p) : p[j].kind = "out"}} ELSE {})
    \cup (IF "add" \in EditKinds
          THEN {<<InsertAt(p, i, [Step0 EXCEPT !.kind = "out", !.alias = o, !.sent = v, !.res = <<"val", v>>]), e>> :
                   i \in 1 .. Len(p) + 1, o \in OutAliases, v \in Vals} ELSE {})
    \cup (IF "swap" \in EditKinds
          THEN {<<SwapAt(p, i), e>> : i \in {j \in 1 .. Len(p) - 1 : p[j].kind = "out" /\ p[j + 1].kind = "out"}}
          ELSE {})
    \* the replayed code additionally calls discard_recording() / force_sample_recording(): no-ops while replaying, the
    \* outputs it sends are those of p
    \cup (IF "ctl" \in EditKinds
          THEN {<<InsertAt(p, i, [Step0 EXCEPT !.kind = k]), e>> : i \in 1 .. Len(p) + 1, k \in {"discard", "force"}} ELSE {})
    \cup (IF "result" \in EditKinds THEN {<<p, <<"val", v>>>> : v \in Vals} ELSE {})
    \cup (IF "raise" \in EditKinds THEN {<<p, <<"exc", x>>>> : x \in Excs} ELSE {})

PlayStart(r, mode) ==
    /\ ctl.phase = "idle" /\ ctl.runs < MaxRuns
    /\ r \in DOMAIN cas.store
    /\ mode \in Modes
    /\ LET sp == cas.store[r].prog
           se == cas.store[r].end
       IN
       /\ mode \in {"same", "edit"} => ~cas.store[r].meta.incomplete
       /\ \E q \in (IF mode = "edit" THEN {x \in Edits(sp, se) : x # <<sp, se>>} ELSE {<<<<>>, se>>}) :
            ctl' = [ctl EXCEPT !.phase = "play", !.runs = @ + 1, !.mode = mode, !.rprog = q[1], !.rend = q[2],
                               !.pidx = 1, !.steps = 0, !.failed = FALSE]
    /\ rec' = [rec EXCEPT !.pbRec = r, !.pbOut = <<>>]
    /\ ev' = [Ev0 EXCEPT !.kind = "playstart", !.rid = r, !.mode = mode, !.calls = <<"get">>]
    /\ UNCHANGED <<cas, prog>>

\* play() with an id that was never saved: NoSuchRecording, nothing else happens (after F3)
PlayUnknown ==
    /\ ctl.phase = "idle" /\ ctl.runs < MaxRuns /\ "unknown" \in PlayFaults
    /\ ctl' = [ctl EXCEPT !.runs = @ + 1]
    /\ ev' = [Ev0 EXCEPT !.kind = "playunknown", !.calls = <<"get">>,
                         !.seen = IF FixF3 THEN <<"err", "NoSuchRecording">> ELSE <<"err", "FrameworkError">>]
    /\ UNCHANGED <<rec, cas, prog>>

\* the playback function raises before it reaches the operation: play() lets it through and resets
PlayRaise(r) ==
    /\ ctl.phase = "idle" /\ ctl.runs < MaxRuns /\ "raise" \in PlayFaults
    /\ r \in DOMAIN cas.store
    /\ ctl' = [ctl EXCEPT !.runs = @ + 1]
    /\ ev' = [Ev0 EXCEPT !.kind = "playraise", !.rid = r, !.calls = <<"get">>, !.seen = <<"exc", "E2">>]
    /\ UNCHANGED <<rec, cas, prog>>

Stored == cas.store[rec.pbRec]

\* the documented policy for an input call during replay
FirstPresent(keys, d) ==
    LET idx == {i \in 1 .. Len(keys) : keys[i] \in DOMAIN d} IN
    IF idx = {} THEN 0 ELSE CHOOSE i \in idx : \A j \in idx : i <= j

InPolicy(c, opts, d) ==
    LET keys == <<InKey(c)>> \o [i \in 1 .. Len(opts.fb) |-> <<"in", opts.fb[i], c[2]>>]
        i    == FirstPresent(keys, d)
    IN
    IF i # 0 THEN d[keys[i]]
    ELSE IF opts.runOrig THEN World[c]
    ELSE IF opts.subst \in {"value", "callable"} THEN <<"sub", opts.subst>>
    ELSE IF opts.subst = "falsy" /\ FixF1 THEN <<"sub", "falsy">>
    ELSE <<"err", "RecordingKeyError">>

OutPolicy(o, n, opts, d) ==
    IF ResKey(o, n) \in DOMAIN d THEN d[ResKey(o, n)]
    ELSE IF opts.failMissing THEN <<"err", "RecordingKeyError">>
    ELSE <<"dflt", "d">>

\* the replayed program: the stored one ("same": not copied into ctl to keep states small) or its edit
RProg == IF ctl.mode = "same" THEN Stored.prog ELSE ctl.rprog

\* the next step of the replayed program: read from rprog (same / edit) or arbitrary (free)
NextSteps ==
    IF ctl.phase # "play" THEN {}
    ELSE IF ctl.mode = "free"
    THEN {[Step0 EXCEPT !.kind = "in", !.alias = c[1], !.arg = c[2], !.opt = i, !.body = b] :
              c \in InCalls, i \in 1 .. Len(InOpts), b \in FreeBodies}
         \cup {[Step0 EXCEPT !.kind = "out", !.alias = o, !.sent = v, !.opt = i] :
                  o \in OutAliases, v \in Vals, i \in 1 .. Len(OutOpts)}
         \cup {[Step0 EXCEPT !.kind = k] : k \in Ctl}
    ELSE IF ctl.pidx <= Len(RProg) THEN {RProg[ctl.pidx]} ELSE {}

PStep(st) ==
    /\ ctl.phase = "play" /\ ~ctl.failed
    /\ st \in NextSteps
    /\ ctl.mode = "free" => ctl.steps < MaxPSteps
    /\ LET d == Stored.data IN
       CASE st.kind = "in" ->
              LET c    == <<st.alias, st.arg>>
                  op   == InOptsOf(st)
                  seen == InPolicy(c, op, d)
                  ran  == FirstPresent(<<InKey(c)>> \o [i \in 1 .. Len(op.fb) |-> <<"in", op.fb[i], c[2]>>], d) = 0
                          /\ op.runOrig
              IN
              /\ rec' = rec
              /\ ctl' = [ctl EXCEPT !.pidx = @ + 1, !.steps = @ + 1, !.failed = seen[1] = "err"]
              /\ ev' = [Ev0 EXCEPT !.kind = "pin", !.step = st, !.seen = seen, !.bodyRuns = IF ran THEN 1 ELSE 0,
                                   !.icpt = TRUE, !.mode = ctl.mode, !.rid = rec.pbRec]
         [] st.kind = "out" ->
              LET n    == rec.cnt[st.alias] + 1
                  seen == OutPolicy(st.alias, n, OutOptsOf(st), d)
              IN
              /\ rec' = [rec EXCEPT !.cnt[st.alias] = n, !.pbOut = Append(@, <<OutKey(st.alias, n), st.sent>>)]
              /\ ctl' = [ctl EXCEPT !.pidx = @ + 1, !.steps = @ + 1, !.failed = seen[1] = "err"]
              /\ ev' = [Ev0 EXCEPT !.kind = "pout", !.step = st, !.seen = seen, !.bodyRuns = 0, !.icpt = TRUE,
                                   !.mode = ctl.mode, !.rid = rec.pbRec]
         [] OTHER ->   \* discard / force / record_data are no-ops while replaying; play_data reads the recording
              LET seen == IF st.kind = "playdata"
                          THEN (IF <<"user", "k1", 0>> \in DOMAIN d THEN d[<<"user", "k1", 0>>]
                                ELSE <<"err", "RecordingKeyError">>)
                          ELSE None2
              IN
              /\ rec' = rec
              /\ ctl' = [ctl EXCEPT !.pidx = @ + 1, !.steps = @ + 1, !.failed = seen[1] = "err"]
              /\ ev' = [Ev0 EXCEPT !.kind = "pctl", !.step = st, !.mode = ctl.mode, !.rid = rec.pbRec, !.seen = seen]
    /\ UNCHANGED <<cas, prog>>

\* the replayed operation ends (or was cut short by a missing key)
POpEnd(out) ==
    /\ ctl.phase = "play"
    /\ \/ ctl.failed /\ out = <<"err", "RecordingKeyError">>
       \/ ~ctl.failed /\ ctl.mode \in {"same", "edit"} /\ ctl.pidx > Len(RProg) /\ out = ctl.rend
       \/ ~ctl.failed /\ ctl.mode = "free" /\ out \in ({<<"val", v>> : v \in Vals} \cup {<<"exc", x>> : x \in Excs})
    /\ rec' = IF out[1] \in {"val", "exc"} THEN [rec EXCEPT !.pbOut = Append(@, <<OpKey, out[2]>>)] ELSE rec
    /\ ctl' = [ctl EXCEPT !.phase = "pfin", !.end = out]
    /\ ev' = [Ev0 EXCEPT !.kind = "popend", !.seen = out, !.mode = ctl.mode, !.rid = rec.pbRec]
    /\ UNCHANGED <<cas, prog>>

RecordedOut(d) == {k \in DOMAIN d : k[1] \in {"out", "op"}}

PlayEnd ==
    /\ ctl.phase = "pfin"
    /\ rec' = [InitRec EXCEPT !.enabled = rec.enabled]
    /\ ctl' = [ctl EXCEPT !.phase = "idle", !.steps = 0, !.mode = "", !.rprog = <<>>, !.rend = None2, !.pidx = 0,
                          !.failed = FALSE, !.end = None2]
    /\ ev' = [Ev0 EXCEPT !.kind = "playend", !.rid = rec.pbRec, !.mode = ctl.mode,
                         !.seen = IF ctl.end[1] \in {"val", "exc"} THEN <<"ok", "Playback">> ELSE ctl.end,
                         !.pbOut = rec.pbOut,
                         !.keys = RecordedOut(Stored.data)]
    /\ UNCHANGED <<cas, prog>>

-----------------------------------------------------------------------------
Outs == {<<"val", v>> : v \in Vals} \cup {<<"exc", x>> : x \in Excs}

Next ==
    \/ Toggle
    \/ \E c \in Classes : OpEnter(c)
    \/ \E c \in InCalls, b \in Bodies, f \in InFaults : CallInput(c, b, f)
    \/ \E o \in OutAliases, v \in SentVals, res \in OutResults, f \in OutFaults : CallOutput(o, v, res, f)
    \/ \E k \in Ctl : Control(k)
    \/ \E out \in Outs \cup {<<"int", "BI">>} :
          /\ (out[1] = "val" => "ret" \in Ends) /\ (out[1] = "exc" => "raise" \in Ends)
          /\ (out[1] = "int" => "interrupt" \in Ends)
          /\ OpEnd(out)
    \/ \E d \in Draws, x \in Extractors, sf \in SaveFails : Finalise(d, x, sf)
    \/ \E r \in Recs, m \in Modes : PlayStart(r, m)
    \/ PlayUnknown
    \/ \E r \in Recs : PlayRaise(r)
    \/ \E st \in NextSteps : PStep(st)
    \/ \E out \in Outs \cup {<<"err", "RecordingKeyError">>} : POpEnd(out)
    \/ PlayEnd

Spec == Init /\ [][Next]_vars

-----------------------------------------------------------------------------
(* Properties *)

\* C05
\* (cas.lost: finalisations that were themselves interrupted - only with "interrupts" \in Extractors, see Finalise)
FinalisedAtMostOnce == \A r \in Recs : cas.saves[r] + cas.aborts[r] + cas.lost[r] <= 1
FinalisedOnce == ctl.phase = "idle" => \A r \in 1 .. cas.created : cas.saves[r] + cas.aborts[r] + cas.lost[r] = 1
NothingBeforeCreate == \A r \in Recs : r > cas.created => cas.saves[r] + cas.aborts[r] + cas.lost[r] = 0
LostOnlyByInterruptedFinalisation == \A r \in Recs : cas.lost[r] > 0 => "interrupts" \in Extractors

\* every intercepted call that happened in the recorded run of a stored recording has its key(s)
Captured(p, d) ==
    \A i \in 1 .. Len(p) :
        /\ p[i].kind = "in" /\ p[i].seen[1] \in {"val", "exc"} => InKey(<<p[i].alias, p[i].arg>>) \in DOMAIN d
        /\ p[i].kind = "out" =>
              LET n == Cardinality({j \in 1 .. i : p[j].kind = "out" /\ p[j].alias = p[i].alias}) IN
              /\ OutKey(p[i].alias, n) \in DOMAIN d
              /\ p[i].seen[1] \in {"val", "exc"} => ResKey(p[i].alias, n) \in DOMAIN d
SavedOnlyIfCaptured == \A r \in DOMAIN cas.store : Captured(cas.store[r].prog, cas.store[r].data)

\* a stored recording that is not flagged incomplete replays without a missing key
ReplayableIfComplete ==
    (ctl.phase \in {"play", "pfin"} /\ ctl.mode = "same") => ~ctl.failed

\* C09
IdleClean == ctl.phase = "idle" => rec = [InitRec EXCEPT !.enabled = rec.enabled]

\* C04
Transparent == ev.kind \in {"in", "out"} => (ev.seen = ev.step.seen /\ ev.seen[1] # "err" /\ ev.bodyRuns = 1)
DisabledPassThrough == (ev.kind \in {"enter", "in", "out", "finalise", "discard", "force", "data"} /\ ~rec.enabled
                          /\ ctl.toggles = 0) => ev.calls = <<>>

\* C02: nothing is created, changed or saved in the cassette during a replay
ReplayPure == [][ctl.phase \in {"play", "pfin"} => cas' = cas]_vars
NoSilentInvention ==
    ev.kind \in {"pin", "pout"} =>
        \/ ev.seen[1] \in {"val", "exc"}      \* recorded outcome, or run-original
        \/ ev.seen[1] = "sub" /\ InOptsOf(ev.step).subst # "none"
        \/ ev.seen[1] = "dflt" /\ ~OutOptsOf(ev.step).failMissing
        \/ ev.seen[1] = "err"

\* C01: replaying the unchanged program gives every call what it got while recording
ReplayFaithful ==
    (ev.kind \in {"pin", "pout"} /\ ev.mode = "same") => ev.seen = ev.step.seen
Got(seq, k) == LET idx == {i \in 1 .. Len(seq) : seq[i][1] = k} IN
               IF idx = {} THEN <<"absent">> ELSE <<"v", seq[CHOOSE i \in idx : TRUE][2]>>
GotRec(d, k) == IF k \in DOMAIN d THEN <<"v", d[k][2]>> ELSE <<"absent">>
PfinOK == ctl.phase = "pfin" /\ ctl.end[1] \in {"val", "exc"}
SameOutputs ==
    (PfinOK /\ ctl.mode = "same") =>
        LET ks == RecordedOut(Stored.data) IN
        /\ \A k \in ks : Got(rec.pbOut, k) = GotRec(Stored.data, k)
        /\ \A i \in 1 .. Len(rec.pbOut) : rec.pbOut[i][1] \in ks
        /\ Len(rec.pbOut) = Cardinality(ks)

\* C03: differences between recorded and replayed outputs sit exactly at the affected entries
SentSeq(p, o) == LET q == SelectSeq(p, LAMBDA s : s.kind = "out" /\ s.alias = o) IN [i \in 1 .. Len(q) |-> q[i].sent]
AllOutKeys == {OutKey(o, n) : o \in OutAliases, n \in 1 .. (MaxSteps + MaxPSteps + 1)}
Affected(p, pe, q, qe) ==
    {k \in AllOutKeys :
        LET a == SentSeq(p, k[2])
            b == SentSeq(q, k[2])
        IN  \/ (k[3] <= Len(a)) # (k[3] <= Len(b))
            \/ k[3] <= Len(a) /\ k[3] <= Len(b) /\ a[k[3]] # b[k[3]]}
    \cup (IF pe # qe THEN {OpKey} ELSE {})
OutputsExact ==
    (PfinOK /\ ctl.mode \in {"same", "edit"}) =>
        \A k \in AllOutKeys \cup {OpKey} :
            (Got(rec.pbOut, k) # GotRec(Stored.data, k)) <=> (k \in Affected(Stored.prog, Stored.end, RProg, ctl.rend))
OneEntryPerCall ==
    \A i, j \in 1 .. Len(rec.pbOut) : rec.pbOut[i][1] = rec.pbOut[j][1] => i = j

\* C17
\* the documented table, stated from what the run *requested* (ghost ctl.freq), not from the force flag
DocKeep(requested, c, draw) ==
    \/ requested /\ ~c.ignoreForce
    \/ c.rate \in {"one", "above"}
    \/ c.rate = "frac" /\ draw = "low"
KeepPolicy ==
    ev.kind = "finalise" /\ ev.decision \in {"keep", "drop", "lost"} =>
        LET c == CHOOSE c \in Classes : c.name = ev.cls IN
        /\ (ev.decision \in {"keep", "lost"}) <=> DocKeep(ev.freq, c, ev.draw)
        /\ (ev.draw # "") <=> (c.rate = "frac" /\ ~(ev.freq /\ ~c.ignoreForce))   \* a draw decides only then
SkippedNeverRecords == ev.kind = "enter" /\ (\E c \in Classes : c.name = ev.cls /\ c.skipped) => ev.calls = <<>>

\* C18
MetaTruth ==
    \A r \in DOMAIN cas.store :
        LET s == cas.store[r] IN
        /\ s.meta.incomplete <=> (s.end[1] \notin {"val", "exc"})
        /\ s.end[1] = "val" => s.meta.exc = "false"
        /\ s.end[1] = "exc" => s.meta.exc = "true"
        /\ s.meta.user \in {"ok", "none"}

TypeOK ==
    /\ ctl.phase \in {"idle", "op", "fin", "play", "pfin"}
    /\ rec.cur \in 0 .. MaxRecs
=============================================================================
