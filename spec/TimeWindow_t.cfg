CONSTANT H = 96
CONSTANT Step = 1
CONSTANT Pinned = FALSE
INIT Init
NEXT Next
INVARIANT Exact
CHECK_DEADLOCK FALSE
