------------------------------ MODULE S3Bucket ------------------------------
(***************************************************************************)
(* S3TapeCassette as a set of independent bucket mutations.  Several       *)
(* cassettes (read_only / transient / key prefix) share one bucket that    *)
(* also holds foreign objects.  Keys are sequences of tokens so that the   *)
(* *string-prefix* semantics of objects.filter(Prefix=...) and of          *)
(* delete_by_prefix is exact where it matters:                             *)
(*    "R" = 'tape_recorder_recordings/'   "F" = 'full/'  "M" = 'metadata/' *)
(*    "/" = '/'      single letters = characters of key prefixes and       *)
(*    categories   "D1","D2" = day folders   "n1".. = unique parts of ids  *)
(* (a key prefix literally named 'full' or 'metadata' is outside this      *)
(* abstraction and outside the universe).                                  *)
(*                                                                         *)
(* Actions = bucket mutations and the calls that must not mutate:          *)
(*   SaveBegin (assert writable, encode)  PutFull  PutMeta  Crash          *)
(*   ResaveBegin (a stored recording is fetched and saved again under the  *)
(*   same id)   ResaveHeld (a recording object saved before is handed to   *)
(*   save again, unchanged)   Reuse (the cassette object is used again     *)
(*   after close())   Reject (the bucket refuses the pending put: nothing is*)
(*   written, the save raises, the cassette object lives on)               *)
(*   RoAttempt (create/save on a read-only cassette: AssertionError)       *)
(*   CloseDelFull  CloseDelMeta  (transient, writable close: two prefix    *)
(*   deletions)   CloseNoop (any other close / context-manager exit)       *)
(*   Get / List are pure (checked by the harness through the mutation log) *)
(***************************************************************************)
EXTENDS Naturals, Sequences, SequencesExt, FiniteSets, TLC

CONSTANTS Cass,       \* set of cassette names
          CassDef,    \* [Cass -> [ro, transient, prefix]]  prefix: sequence of characters, <<>> = default
          Cats,       \* categories: sequences of characters
          MaxSaves,
          MaxResaves, \* budget of "again" steps: a stored / a held recording is saved again, a closed cassette is used again
          Rejects,    \* BOOLEAN: may the bucket refuse a put (service error)?
          PutOrder,   \* "full-first" (the design) or "meta-first"
          DeleteWhole \* FALSE (the design: delete .../full/ and .../metadata/) or TRUE (delete the whole key prefix)

VARIABLES bucket, inflight, log, closing, closeFrom, nid, nres, ev
vars == <<bucket, inflight, log, closing, closeFrom, nid, nres, ev>>

Norm(p)     == IF p = <<>> THEN <<>> ELSE p \o <<"/">>
Root(c)     == <<"R">> \o Norm(CassDef[c].prefix)
IdOf(cat, n) == cat \o <<"/", "D1", "/">> \o <<n>>
FullKey(c, id) == Root(c) \o <<"F">> \o id
MetaKey(c, id) == Root(c) \o <<"M">> \o id
Own(c, k)   == IsPrefix(Root(c) \o <<"F">>, k) \/ IsPrefix(Root(c) \o <<"M">>, k)
Names       == <<"n1", "n2", "n3", "n4">>

Foreign == { <<"X", "o", "t", "h", "e", "r">>,                 \* outside tape_recorder_recordings/
             <<"R", "z", "/", "F", "f", "/", "D1", "/", "n9">>, \* another application's prefix
             <<"R", "z", "/", "M", "f", "/", "D1", "/", "n9">> }

NoFlight == [id |-> <<>>, stage |-> "none"]
Ev0 == [kind |-> "init", c |-> "", key |-> <<>>, id |-> <<>>, deleted |-> {}]

Init == /\ bucket = Foreign
        /\ inflight = [c \in Cass |-> NoFlight]
        /\ log = <<>>
        /\ closing = [c \in Cass |-> "no"]
        /\ closeFrom = [c \in Cass |-> 0]      \* length of the mutation log when the cassette's close() began
        /\ nid = 0
        /\ nres = 0
        /\ ev = Ev0

Writable(c) == ~CassDef[c].ro

\* create_new_recording + the first, non-mutating half of _save_recording
SaveBegin(c, cat) ==
    /\ Writable(c) /\ inflight[c].stage = "none" /\ closing[c] = "no" /\ nid < MaxSaves
    /\ nid' = nid + 1
    /\ inflight' = [inflight EXCEPT ![c] = [id |-> IdOf(cat, Names[nid + 1]), stage |-> "encoded"]]
    /\ ev' = [Ev0 EXCEPT !.kind = "savebegin", !.c = c, !.id = IdOf(cat, Names[nid + 1])]
    /\ UNCHANGED <<bucket, log, closing, closeFrom, nres>>

\* a recording this cassette can discover and fetch is fetched, amended and saved again under its id
StoredIds(c) == { SubSeq(k, Len(Root(c)) + 2, Len(k)) : k \in {x \in bucket : IsPrefix(Root(c) \o <<"M">>, x)} }
ResaveBegin(c, id) ==
    /\ Writable(c) /\ inflight[c].stage = "none" /\ closing[c] = "no" /\ nres < MaxResaves
    /\ id \in StoredIds(c) /\ FullKey(c, id) \in bucket
    /\ \A d \in Cass : Root(d) = Root(c) => closing[d] = "no" /\ inflight[d].stage = "none"
    /\ nres' = nres + 1
    /\ inflight' = [inflight EXCEPT ![c] = [id |-> id, stage |-> "encoded"]]
    /\ ev' = [Ev0 EXCEPT !.kind = "resavebegin", !.c = c, !.id = id]
    /\ UNCHANGED <<bucket, log, closing, closeFrom, nid>>

\* close() leaves the cassette object usable (a context-manager exit, or close() between two phases of a service): it is
\* used again afterwards
Reuse(c) ==
    /\ Writable(c) /\ closing[c] = "done" /\ nres < MaxResaves
    \* (completeness of what is discoverable is claimed for saves, not for a clean-up racing with another cassette's save
    \* under the same prefix: the cassette is used again once that prefix is quiet and holds no half-deleted leftovers)
    /\ \A d \in Cass : (Root(d) = Root(c) /\ d # c) => inflight[d].stage = "none"
    /\ \A k \in bucket : IsPrefix(Root(c) \o <<"M">>, k) => (Root(c) \o <<"F">> \o SubSeq(k, Len(Root(c)) + 2, Len(k))) \in bucket
    /\ closing' = [closing EXCEPT ![c] = "no"]
    /\ nres' = nres + 1
    /\ ev' = [Ev0 EXCEPT !.kind = "reuse", !.c = c]
    /\ UNCHANGED <<bucket, inflight, log, closeFrom, nid>>

\* a recording object this cassette saved before, still held by the caller, is handed to save_recording again - unchanged,
\* and whether or not the bucket still has it (a transient close may have removed it meanwhile)
HeldIds(c) == { SubSeq(log[i].key, Len(Root(c)) + 2, Len(log[i].key)) :
                    i \in {j \in 1 .. Len(log) : log[j].c = c /\ log[j].op = "put"} }
ResaveHeld(c, id) ==
    /\ Writable(c) /\ inflight[c].stage = "none" /\ closing[c] = "no" /\ nres < MaxResaves
    /\ id \in HeldIds(c)
    /\ \A d \in Cass : Root(d) = Root(c) => closing[d] = "no" /\ inflight[d].stage = "none"
    /\ nres' = nres + 1
    /\ inflight' = [inflight EXCEPT ![c] = [id |-> id, stage |-> "encoded"]]
    /\ ev' = [Ev0 EXCEPT !.kind = "resaveheld", !.c = c, !.id = id]
    /\ UNCHANGED <<bucket, log, closing, closeFrom, nid>>

Put(c, k, stage) ==
    /\ bucket' = bucket \cup {k}
    /\ log' = Append(log, [c |-> c, op |-> "put", key |-> k])
    /\ inflight' = [inflight EXCEPT ![c] = IF stage = "done" THEN NoFlight ELSE [@ EXCEPT !.stage = stage]]

First(c)  == IF PutOrder = "full-first" THEN FullKey(c, inflight[c].id) ELSE MetaKey(c, inflight[c].id)
Second(c) == IF PutOrder = "full-first" THEN MetaKey(c, inflight[c].id) ELSE FullKey(c, inflight[c].id)

Put1(c) == /\ inflight[c].stage = "encoded"
           /\ Put(c, First(c), "put1")
           /\ ev' = [Ev0 EXCEPT !.kind = "put1", !.c = c, !.key = First(c), !.id = inflight[c].id]
           /\ UNCHANGED <<closing, closeFrom, nid, nres>>
Put2(c) == /\ inflight[c].stage = "put1"
           /\ Put(c, Second(c), "done")
           /\ ev' = [Ev0 EXCEPT !.kind = "put2", !.c = c, !.key = Second(c), !.id = inflight[c].id]
           /\ UNCHANGED <<closing, closeFrom, nid, nres>>

\* the process dies in the middle of a save (after any number of its bucket mutations)
Crash(c) == /\ inflight[c].stage \in {"encoded", "put1"}
            /\ inflight' = [inflight EXCEPT ![c] = NoFlight]
            /\ ev' = [Ev0 EXCEPT !.kind = "crash", !.c = c, !.id = inflight[c].id]
            /\ UNCHANGED <<bucket, log, closing, closeFrom, nid, nres>>

\* the bucket refuses the pending put of a save (throttling, 5xx): nothing is written, save_recording raises
Reject(c) == /\ Rejects /\ inflight[c].stage \in {"encoded", "put1"}
             /\ inflight' = [inflight EXCEPT ![c] = NoFlight]
             /\ ev' = [Ev0 EXCEPT !.kind = "reject", !.c = c, !.id = inflight[c].id,
                                  !.key = IF inflight[c].stage = "encoded" THEN First(c) ELSE Second(c)]
             /\ UNCHANGED <<bucket, log, closing, closeFrom, nid, nres>>

\* create / save attempted on a read-only cassette: refused before anything is touched
RoAttempt(c) == /\ CassDef[c].ro /\ closing[c] = "no"
                /\ ev' = [Ev0 EXCEPT !.kind = "roattempt", !.c = c]
                /\ UNCHANGED <<bucket, inflight, log, closing, closeFrom, nid, nres>>

DelPrefix(c, p) ==
    LET gone == {k \in bucket : IsPrefix(p, k)} IN
    /\ bucket' = bucket \ gone
    /\ log' = log \o SetToSeq({[c |-> c, op |-> "delete", key |-> k] : k \in gone})
    /\ ev' = [Ev0 EXCEPT !.kind = "closedel", !.c = c, !.key = p, !.deleted = gone]

CloseDel1(c) == /\ Writable(c) /\ CassDef[c].transient /\ closing[c] = "no" /\ inflight[c].stage = "none"
                /\ DelPrefix(c, IF DeleteWhole THEN Root(c) ELSE Root(c) \o <<"F">>)
                /\ closing' = [closing EXCEPT ![c] = "half"]
                /\ closeFrom' = [closeFrom EXCEPT ![c] = Len(log)]
                /\ UNCHANGED <<inflight, nid, nres>>
CloseDel2(c) == /\ closing[c] = "half"
                /\ DelPrefix(c, IF DeleteWhole THEN Root(c) ELSE Root(c) \o <<"M">>)
                /\ closing' = [closing EXCEPT ![c] = "done"]
                /\ UNCHANGED <<inflight, closeFrom, nid, nres>>
CloseNoop(c) == /\ (CassDef[c].ro \/ ~CassDef[c].transient) /\ closing[c] = "no" /\ inflight[c].stage = "none"
                /\ closing' = [closing EXCEPT ![c] = "done"]
                /\ ev' = [Ev0 EXCEPT !.kind = "closenoop", !.c = c]
                /\ UNCHANGED <<bucket, inflight, log, closeFrom, nid, nres>>

Next == \E c \in Cass :
           \/ \E cat \in Cats : SaveBegin(c, cat)
           \/ \E id \in StoredIds(c) : ResaveBegin(c, id)
           \/ \E id \in HeldIds(c) : ResaveHeld(c, id)
           \/ Reuse(c)
           \/ Put1(c) \/ Put2(c) \/ Crash(c) \/ Reject(c) \/ RoAttempt(c)
           \/ CloseDel1(c) \/ CloseDel2(c) \/ CloseNoop(c)
Spec == Init /\ [][Next]_vars

-----------------------------------------------------------------------------
ReadOnlyNeverMutates == \A i \in 1 .. Len(log) : ~CassDef[log[i].c].ro
Confined == \A i \in 1 .. Len(log) : Own(log[i].c, log[i].key)
ForeignUntouched == Foreign \subseteq bucket
\* closing a transient cassette removes all of its own recordings ...
TransientCloseRemovesOwn ==
    \A c \in Cass : closing[c] = "done" /\ Writable(c) /\ CassDef[c].transient =>
        \A i \in 1 .. Len(log) : (log[i].c = c /\ log[i].op = "put") =>
            \/ log[i].key \notin bucket
            \* ... unless another cassette with the same prefix stored that key (again) after this close() had begun
            \/ \E j \in closeFrom[c] + 1 .. Len(log) : log[j].op = "put" /\ log[j].key = log[i].key /\ log[j].c # c
\* ... and nothing else: what another cassette saved is only ever removed by that cassette (or one with the same prefix)
OthersKept ==
    \A i \in 1 .. Len(log) : log[i].op = "delete" =>
        \A d \in Cass : (Own(d, log[i].key) /\ ~Own(log[i].c, log[i].key)) => FALSE
\* every recording lookup can discover is completely fetchable, at every intermediate point of every save
Discoverable(c, k) == IsPrefix(Root(c) \o <<"M">>, k)
DiscoverableIsFetchable ==
    \A c \in Cass : \A k \in bucket :
        (Discoverable(c, k) /\ \A d \in Cass : (Root(d) = Root(c)) => closing[d] \in {"no"}) =>
            (Root(c) \o <<"F">> \o SubSeq(k, Len(Root(c)) + 2, Len(k))) \in bucket
=============================================================================
