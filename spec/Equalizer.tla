------------------------------ MODULE Equalizer ------------------------------
(***************************************************************************)
(* Equalizer.run_comparison in dedicated-process mode: a parent generator  *)
(* hands recording ids to a worker process over a task queue and reads     *)
(* (succeeded, result) pairs from a result queue; workers are recycled     *)
(* after Rate tasks, declared dead when they exit, killed when they exceed *)
(* the time-out.  Neither queue entry is tagged with the task it belongs   *)
(* to, so attribution rests on the queues holding nothing stale.           *)
(*                                                                         *)
(* Actions (one per block between two multiprocessing boundary calls):     *)
(*   P_Prepare   recycle (terminate.set / join / clear) or create a worker *)
(*               (constant FreshQueues: a new queue pair per worker - the  *)
(*               repaired design; FALSE = one pair for the whole run, the  *)
(*               pinned design), age+1, tasks.put(id)                      *)
(*   W_Take      worker: tasks.get                                         *)
(*   W_Finish    worker: play + compare, results.put                       *)
(*   W_Exit      worker process exits while playing                        *)
(*   W_LatePut   worker answers after the parent stopped waiting           *)
(*   W_IdleExit  the worker process dies while idle, after it answered a   *)
(*               recording with behaviour "idleExit" (a fault that belongs *)
(*               to no recording).  The parent only learns of it when the  *)
(*               next task it hands to that worker is never answered: that *)
(*               recording is reported as "died" (a documented deviation:  *)
(*               `orphans'), the one after it gets a fresh worker *and     *)
(*               fresh queues* and is unaffected.                          *)
(*   P_Get       parent: results.get -> comparison labelled with the       *)
(*               *requested* id, verdict / attached replay from the result *)
(*   P_Died      parent: queue empty and worker not alive                  *)
(*   P_GiveUp    parent: time-out elapsed (only when the worker is stuck:  *)
(*               time passes only if nobody can move)                      *)
(*   P_Kill      parent: kill the worker, failure verdict                  *)
(*   P_Consume   the consumer takes the yielded comparison (or abandons    *)
(*               the generator after Stop comparisons)                     *)
(*   P_Finally   terminate.set(); idle workers exit                        *)
(* Beh[i] is the behaviour of the i-th recording.                          *)
(***************************************************************************)
EXTENDS Naturals, Sequences, FiniteSets, TLC

CONSTANTS N,            \* number of recordings
          Behs,         \* behaviours a recording may have
          Rate,         \* recycle rate
          Stops,        \* set of k: the consumer abandons the run after k comparisons (N = consumes all)
          FreshQueues   \* TRUE: new task/result queues with every new worker

VARIABLES beh, stop, i, pc, gen, alive, known, age, served, wst, tasks, results, out, lateput, orphans, term
vars == <<beh, stop, i, pc, gen, alive, known, age, served, wst, tasks, results, out, lateput, orphans, term>>

MaxGen == N + 1
Gens == 1 .. MaxGen
Idle == [s |-> "idle", id |-> 0, last |-> 0]      \* last: the recording answered last (0: none yet)

Expected(b) ==
    CASE b = "equal" -> "Equal" [] b = "different" -> "Different" [] b = "bare" -> "Equal" [] b = "idleExit" -> "Equal"
      [] b \in {"playerRaises", "extractorRaises", "comparatorRaises", "dataRaises"} -> "Failure"
      \* the replay fails *and* the worker cannot even describe the failure (building the failure result raises): the
      \* worker answers (False, text) instead of a result, the parent turns that into the failure of this recording;
      \* the worker lives on and the task counts towards its age
      [] b = "reportRaises" -> "Failure"
      \* the worker answers, but the parent cannot rebuild the answer it takes from the queue (results.get raises):
      \* a failure of that recording only; the worker is alive and idle and keeps its age
      [] b = "unreadable" -> "Failure"
      [] b = "exits" -> "FailureDied" [] b \in {"hangs", "late"} -> "FailureTimeout"

\* what a worker that completes recording k puts on the result queue (ok: the `succeeded' flag of the pair)
ResultOf(k) == [id |-> k, verdict |-> Expected(beh[k]), ok |-> beh[k] # "reportRaises",
                attached |-> IF beh[k] \in {"playerRaises", "unreadable", "reportRaises"} THEN 0 ELSE k]

Q == IF FreshQueues THEN gen ELSE 1          \* index of the queue pair the parent currently uses
QW(g) == IF FreshQueues THEN g ELSE 1        \* ... and the pair worker g was created with

Init ==
    /\ beh \in [1 .. N -> Behs]
    /\ stop \in Stops
    /\ i = 0 /\ pc = "next" /\ gen = 0
    /\ alive = [g \in Gens |-> FALSE] /\ known = FALSE /\ age = 0
    /\ served = [g \in Gens |-> 0]
    /\ wst = [g \in Gens |-> Idle]
    /\ tasks = [g \in Gens |-> <<>>] /\ results = [g \in Gens |-> <<>>]
    /\ out = <<>> /\ lateput = {} /\ orphans = {} /\ term = FALSE

\* the parent's view: it holds a worker handle (known) until it saw that worker die or killed it
NeedsNew == ~known \/ age >= Rate
WillIdleExit(g) == wst[g].s = "idle" /\ wst[g].last # 0 /\ beh[wst[g].last] = "idleExit"

\* recycle or create, count the task, queue it
P_Prepare ==
    /\ pc = "next" /\ i < N /\ Len(out) < stop
    /\ IF NeedsNew
       THEN /\ gen' = gen + 1
            /\ alive' = [alive EXCEPT ![gen + 1] = TRUE, ![IF gen = 0 THEN gen + 1 ELSE gen] = (gen = 0)]
            /\ age' = 1 /\ known' = TRUE
            /\ wst' = [wst EXCEPT ![gen + 1] = Idle]
            /\ tasks' = [tasks EXCEPT ![IF FreshQueues THEN gen + 1 ELSE 1] = Append(@, i + 1)]
       ELSE /\ age' = age + 1
            /\ tasks' = [tasks EXCEPT ![Q] = Append(@, i + 1)]
            /\ UNCHANGED <<gen, alive, known, wst>>
    \* a recycled worker is joined: it must be idle (it is: the parent only proceeds after a result or a death)
    /\ (NeedsNew /\ gen > 0 /\ alive[gen]) => wst[gen].s = "idle"
    /\ i' = i + 1
    /\ pc' = "waiting"
    /\ UNCHANGED <<beh, stop, served, results, out, lateput, orphans, term>>

W_Take(g) ==
    /\ alive[g] /\ wst[g].s = "idle" /\ tasks[QW(g)] # <<>> /\ ~term /\ ~WillIdleExit(g)
    /\ wst' = [wst EXCEPT ![g] = [s |-> "playing", id |-> Head(tasks[QW(g)]), last |-> @.last]]
    /\ tasks' = [tasks EXCEPT ![QW(g)] = Tail(@)]
    /\ served' = [served EXCEPT ![g] = @ + 1]
    /\ UNCHANGED <<beh, stop, i, pc, gen, alive, age, results, out, lateput, term, known, orphans>>

W_Finish(g) ==
    /\ alive[g] /\ wst[g].s = "playing" /\ beh[wst[g].id] \notin {"exits", "hangs", "late"}
    /\ results' = [results EXCEPT ![QW(g)] = Append(@, ResultOf(wst[g].id))]
    /\ wst' = [wst EXCEPT ![g] = [Idle EXCEPT !.last = wst[g].id]]
    /\ UNCHANGED <<beh, stop, i, pc, gen, alive, age, served, tasks, out, lateput, term, known, orphans>>

W_Exit(g) ==
    /\ alive[g] /\ wst[g].s = "playing" /\ beh[wst[g].id] = "exits"
    /\ alive' = [alive EXCEPT ![g] = FALSE]
    /\ wst' = [wst EXCEPT ![g] = [s |-> "dead", id |-> 0, last |-> 0]]
    /\ UNCHANGED <<beh, stop, i, pc, gen, age, served, tasks, results, out, lateput, term, known, orphans>>

\* the worker process dies while idle (after answering a recording with behaviour "idleExit"): nobody notices yet
W_IdleExit(g) ==
    /\ alive[g] /\ WillIdleExit(g)
    /\ alive' = [alive EXCEPT ![g] = FALSE]
    /\ wst' = [wst EXCEPT ![g] = [s |-> "deadidle", id |-> 0, last |-> 0]]
    /\ UNCHANGED <<beh, stop, i, pc, gen, age, served, tasks, results, out, lateput, term, known, orphans>>

\* the worker answers just after the parent gave up (and before it is killed)
W_LatePut(g) ==
    /\ alive[g] /\ wst[g].s = "playing" /\ beh[wst[g].id] = "late" /\ pc = "gaveup" /\ g = gen
    /\ results' = [results EXCEPT ![QW(g)] = Append(@, [id |-> wst[g].id, verdict |-> "Equal", ok |-> TRUE, attached |-> wst[g].id])]
    /\ wst' = [wst EXCEPT ![g] = Idle]
    /\ lateput' = lateput \cup {wst[g].id}      \* history: which late recordings did answer before the kill
    /\ UNCHANGED <<beh, stop, i, pc, gen, alive, age, served, tasks, out, term, known, orphans>>

Emit(id, verdict, attached) == out' = Append(out, [id |-> id, verdict |-> verdict, attached |-> attached])

P_Get ==
    /\ pc = "waiting" /\ results[Q] # <<>>
    /\ LET r == Head(results[Q]) IN Emit(i, r.verdict, r.attached)
    /\ results' = [results EXCEPT ![Q] = Tail(@)]
    /\ pc' = "yielded"
    /\ UNCHANGED <<beh, stop, i, gen, alive, age, served, wst, tasks, lateput, term, known, orphans>>

P_Died ==
    /\ pc = "waiting" /\ results[Q] = <<>> /\ ~alive[gen]
    /\ Emit(i, "FailureDied", 0)
    /\ pc' = "yielded"
    /\ known' = FALSE
    \* the recording whose task was handed to a worker that had died idle: failed although nothing is wrong with it
    /\ orphans' = IF wst[gen].s = "deadidle" THEN orphans \cup {i} ELSE orphans
    /\ UNCHANGED <<beh, stop, i, gen, alive, age, served, wst, tasks, results, lateput, term>>

\* the time-out only elapses when the worker cannot move (it hangs, or answers late)
Stuck(g) == alive[g] /\ ( (wst[g].s = "playing" /\ beh[wst[g].id] \in {"hangs", "late"}) )
P_GiveUp ==
    /\ pc = "waiting" /\ results[Q] = <<>> /\ Stuck(gen)
    /\ pc' = "gaveup"
    /\ UNCHANGED <<beh, stop, i, gen, alive, age, served, wst, tasks, results, out, lateput, term, known, orphans>>

P_Kill ==
    /\ pc = "gaveup"
    /\ alive' = [alive EXCEPT ![gen] = FALSE]
    /\ wst' = [wst EXCEPT ![gen] = [s |-> "dead", id |-> 0, last |-> 0]]
    /\ Emit(i, "FailureTimeout", 0)
    /\ pc' = "yielded"
    /\ known' = FALSE
    /\ UNCHANGED <<beh, stop, i, gen, age, served, tasks, results, lateput, term, orphans>>

P_Consume ==
    /\ pc = "yielded"
    /\ pc' = IF i < N /\ Len(out) < stop THEN "next" ELSE "finally"
    /\ UNCHANGED <<beh, stop, i, gen, alive, age, served, wst, tasks, results, out, lateput, term, known, orphans>>

P_Finally ==
    /\ pc \in {"finally"} \/ (pc = "next" /\ (i = N \/ Len(out) >= stop))
    /\ term' = TRUE
    /\ pc' = "done"
    /\ UNCHANGED <<beh, stop, i, gen, alive, age, served, wst, tasks, results, out, lateput, known, orphans>>

\* an idle worker that sees the terminate event exits
W_Terminate(g) ==
    /\ term /\ alive[g] /\ wst[g].s = "idle"
    /\ alive' = [alive EXCEPT ![g] = FALSE]
    /\ UNCHANGED <<beh, stop, i, pc, gen, age, served, wst, tasks, results, out, lateput, term, known, orphans>>

Next ==
    \/ P_Prepare \/ P_Get \/ P_Died \/ P_GiveUp \/ P_Kill \/ P_Consume \/ P_Finally
    \/ \E g \in Gens : W_Take(g) \/ W_Finish(g) \/ W_Exit(g) \/ W_IdleExit(g) \/ W_LatePut(g) \/ W_Terminate(g)

Fairness == WF_vars(Next) /\ \A g \in Gens : WF_vars(W_Take(g) \/ W_Finish(g) \/ W_Exit(g) \/ W_IdleExit(g) \/ W_Terminate(g))
Spec == Init /\ [][Next]_vars /\ Fairness

-----------------------------------------------------------------------------
\* C08: one comparison per id, in order, labelled with that id, carrying that recording's own verdict and replay
Attribution ==
    \A k \in 1 .. Len(out) :
        /\ out[k].id = k
        /\ out[k].verdict = IF k \in orphans THEN "FailureDied" ELSE Expected(beh[k])
        /\ out[k].attached # 0 => out[k].attached = k
OneEach == Len(out) <= N /\ (pc = "done" => Len(out) = IF stop < N THEN stop ELSE N)
\* C13
RecycleBound == \A g \in Gens : served[g] <= Rate
OneWorker == Cardinality({g \in Gens : alive[g]}) <= 1
Terminates == <>(pc = "done")
NoLeak == <>[](\A g \in Gens : ~alive[g])
=============================================================================
