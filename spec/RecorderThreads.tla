--------------------------- MODULE RecorderThreads ---------------------------
(***************************************************************************)
(* One recorded operation whose intercepted inputs are called from worker  *)
(* threads while another thread (or the operation itself) discards the     *)
(* recording or forces sampling.  TapeRecorder takes no lock: the shared   *)
(* state is _active_recording / _active_recording_parameters /             *)
(* _force_sample and the recording object.  One label per block between    *)
(* two points where the recorder calls out (argument serialisation while   *)
(* the key is built, the wrapped body, the data handler, the cassette's    *)
(* abort_recording) - these are the yield points of the deterministic      *)
(* scheduler, so TLC's interleavings are the schedules replayed on the     *)
(* real code.                                                              *)
(*   W_enter   _should_intercept, alias formatting, start of key building  *)
(*   W_key     key built, interception context entered                     *)
(*   W_body    the wrapped body runs (exactly once, whatever happens)      *)
(*   W_after   context left, data handler prepares the value               *)
(*   W_write   _record_data: the active recording is read once and written *)
(*   *_discA   discard_recording: check + hand the recording to abort      *)
(*   *_discB   cassette.abort_recording closes the recording               *)
(*   *_discC   _reset_active_recording                                     *)
(*   D_force   force_sample_recording                                      *)
(*   M_end     operation output recorded, finally-block of start_recording *)
(***************************************************************************)
EXTENDS Naturals, Sequences, FiniteSets, TLC

CONSTANTS Workers,     \* worker thread ids
          Fault,       \* [Workers -> {"none", "keyFail", "prepFail"}]
          DAct         \* what the discarder thread does: "discard", "force", "none"

(* --algorithm RecorderThreads
variables active = TRUE, closed = FALSE, aborts = 0, saves = 0, force = FALSE,
          data = {}, ran = [w \in Workers |-> 0], who = "", err = {};

fair process worker \in Workers
variables icpt = FALSE, held = FALSE;
begin
W_enter:
  who := self;
  icpt := active;
  if ~icpt then
    goto W_plainbody;
  elsif Fault[self] = "keyFail" then
    goto W_discA;
  end if;
W_key:
  who := self;
W_body:
  who := self;
  ran[self] := ran[self] + 1;
W_after:
  who := self;
  if Fault[self] = "prepFail" then
    goto W_discA;
  end if;
W_write:
  who := self;
  if active then
    data := data \cup {self};
  end if;
  goto W_done;
W_discA:
  who := self;
  held := active;
  if ~held then
    goto W_discEnd;
  end if;
W_discB:
  who := self;
  closed := TRUE;
  aborts := aborts + 1;
W_discC:
  who := self;
  active := FALSE;
  force := FALSE;
W_discEnd:
  who := self;
  if Fault[self] = "keyFail" then
    goto W_plainbody;
  else
    goto W_done;
  end if;
W_plainbody:
  who := self;
  ran[self] := ran[self] + 1;
W_done:
  skip;
end process;

fair process discarder = "d"
variables dheld = FALSE;
begin
D_start:
  who := "d";
  if DAct = "none" then
    goto D_done;
  elsif DAct = "force" then
    goto D_force;
  end if;
D_discA:
  who := "d";
  dheld := active;
  if ~dheld then
    goto D_done;
  end if;
D_discB:
  who := "d";
  closed := TRUE;
  aborts := aborts + 1;
D_discC:
  who := "d";
  active := FALSE;
  force := FALSE;
  goto D_done;
D_force:
  who := "d";
  if active then
    force := TRUE;
  end if;
D_done:
  skip;
end process;

fair process main = "m"
begin
M_join:
  await (\A w \in Workers : pc[w] = "Done") /\ pc["d"] = "Done";
  who := "m";
M_end:
  who := "m";
  if active then
    saves := saves + 1;
    active := FALSE;
    force := FALSE;
  end if;
end process;
end algorithm; *)
\* BEGIN TRANSLATION
VARIABLES pc, active, closed, aborts, saves, force, data, ran, who, err, icpt, 
          held, dheld

vars == << pc, active, closed, aborts, saves, force, data, ran, who, err, 
           icpt, held, dheld >>

ProcSet == (Workers) \cup {"d"} \cup {"m"}

Init == (* Global variables *)
        /\ active = TRUE
        /\ closed = FALSE
        /\ aborts = 0
        /\ saves = 0
        /\ force = FALSE
        /\ data = {}
        /\ ran = [w \in Workers |-> 0]
        /\ who = ""
        /\ err = {}
        (* Process worker *)
        /\ icpt = [self \in Workers |-> FALSE]
        /\ held = [self \in Workers |-> FALSE]
        (* Process discarder *)
        /\ dheld = FALSE
        /\ pc = [self \in ProcSet |-> CASE self \in Workers -> "W_enter"
                                        [] self = "d" -> "D_start"
                                        [] self = "m" -> "M_join"]

W_enter(self) == /\ pc[self] = "W_enter"
                 /\ who' = self
                 /\ icpt' = [icpt EXCEPT ![self] = active]
                 /\ IF ~icpt'[self]
                       THEN /\ pc' = [pc EXCEPT ![self] = "W_plainbody"]
                       ELSE /\ IF Fault[self] = "keyFail"
                                  THEN /\ pc' = [pc EXCEPT ![self] = "W_discA"]
                                  ELSE /\ pc' = [pc EXCEPT ![self] = "W_key"]
                 /\ UNCHANGED << active, closed, aborts, saves, force, data, 
                                 ran, err, held, dheld >>

W_key(self) == /\ pc[self] = "W_key"
               /\ who' = self
               /\ pc' = [pc EXCEPT ![self] = "W_body"]
               /\ UNCHANGED << active, closed, aborts, saves, force, data, ran, 
                               err, icpt, held, dheld >>

W_body(self) == /\ pc[self] = "W_body"
                /\ who' = self
                /\ ran' = [ran EXCEPT ![self] = ran[self] + 1]
                /\ pc' = [pc EXCEPT ![self] = "W_after"]
                /\ UNCHANGED << active, closed, aborts, saves, force, data, 
                                err, icpt, held, dheld >>

W_after(self) == /\ pc[self] = "W_after"
                 /\ who' = self
                 /\ IF Fault[self] = "prepFail"
                       THEN /\ pc' = [pc EXCEPT ![self] = "W_discA"]
                       ELSE /\ pc' = [pc EXCEPT ![self] = "W_write"]
                 /\ UNCHANGED << active, closed, aborts, saves, force, data, 
                                 ran, err, icpt, held, dheld >>

W_write(self) == /\ pc[self] = "W_write"
                 /\ who' = self
                 /\ IF active
                       THEN /\ data' = (data \cup {self})
                       ELSE /\ TRUE
                            /\ data' = data
                 /\ pc' = [pc EXCEPT ![self] = "W_done"]
                 /\ UNCHANGED << active, closed, aborts, saves, force, ran, 
                                 err, icpt, held, dheld >>

W_discA(self) == /\ pc[self] = "W_discA"
                 /\ who' = self
                 /\ held' = [held EXCEPT ![self] = active]
                 /\ IF ~held'[self]
                       THEN /\ pc' = [pc EXCEPT ![self] = "W_discEnd"]
                       ELSE /\ pc' = [pc EXCEPT ![self] = "W_discB"]
                 /\ UNCHANGED << active, closed, aborts, saves, force, data, 
                                 ran, err, icpt, dheld >>

W_discB(self) == /\ pc[self] = "W_discB"
                 /\ who' = self
                 /\ closed' = TRUE
                 /\ aborts' = aborts + 1
                 /\ pc' = [pc EXCEPT ![self] = "W_discC"]
                 /\ UNCHANGED << active, saves, force, data, ran, err, icpt, 
                                 held, dheld >>

W_discC(self) == /\ pc[self] = "W_discC"
                 /\ who' = self
                 /\ active' = FALSE
                 /\ force' = FALSE
                 /\ pc' = [pc EXCEPT ![self] = "W_discEnd"]
                 /\ UNCHANGED << closed, aborts, saves, data, ran, err, icpt, 
                                 held, dheld >>

W_discEnd(self) == /\ pc[self] = "W_discEnd"
                   /\ who' = self
                   /\ IF Fault[self] = "keyFail"
                         THEN /\ pc' = [pc EXCEPT ![self] = "W_plainbody"]
                         ELSE /\ pc' = [pc EXCEPT ![self] = "W_done"]
                   /\ UNCHANGED << active, closed, aborts, saves, force, data, 
                                   ran, err, icpt, held, dheld >>

W_plainbody(self) == /\ pc[self] = "W_plainbody"
                     /\ who' = self
                     /\ ran' = [ran EXCEPT ![self] = ran[self] + 1]
                     /\ pc' = [pc EXCEPT ![self] = "W_done"]
                     /\ UNCHANGED << active, closed, aborts, saves, force, 
                                     data, err, icpt, held, dheld >>

W_done(self) == /\ pc[self] = "W_done"
                /\ TRUE
                /\ pc' = [pc EXCEPT ![self] = "Done"]
                /\ UNCHANGED << active, closed, aborts, saves, force, data, 
                                ran, who, err, icpt, held, dheld >>

worker(self) == W_enter(self) \/ W_key(self) \/ W_body(self)
                   \/ W_after(self) \/ W_write(self) \/ W_discA(self)
                   \/ W_discB(self) \/ W_discC(self) \/ W_discEnd(self)
                   \/ W_plainbody(self) \/ W_done(self)

D_start == /\ pc["d"] = "D_start"
           /\ who' = "d"
           /\ IF DAct = "none"
                 THEN /\ pc' = [pc EXCEPT !["d"] = "D_done"]
                 ELSE /\ IF DAct = "force"
                            THEN /\ pc' = [pc EXCEPT !["d"] = "D_force"]
                            ELSE /\ pc' = [pc EXCEPT !["d"] = "D_discA"]
           /\ UNCHANGED << active, closed, aborts, saves, force, data, ran, 
                           err, icpt, held, dheld >>

D_discA == /\ pc["d"] = "D_discA"
           /\ who' = "d"
           /\ dheld' = active
           /\ IF ~dheld'
                 THEN /\ pc' = [pc EXCEPT !["d"] = "D_done"]
                 ELSE /\ pc' = [pc EXCEPT !["d"] = "D_discB"]
           /\ UNCHANGED << active, closed, aborts, saves, force, data, ran, 
                           err, icpt, held >>

D_discB == /\ pc["d"] = "D_discB"
           /\ who' = "d"
           /\ closed' = TRUE
           /\ aborts' = aborts + 1
           /\ pc' = [pc EXCEPT !["d"] = "D_discC"]
           /\ UNCHANGED << active, saves, force, data, ran, err, icpt, held, 
                           dheld >>

D_discC == /\ pc["d"] = "D_discC"
           /\ who' = "d"
           /\ active' = FALSE
           /\ force' = FALSE
           /\ pc' = [pc EXCEPT !["d"] = "D_done"]
           /\ UNCHANGED << closed, aborts, saves, data, ran, err, icpt, held, 
                           dheld >>

D_force == /\ pc["d"] = "D_force"
           /\ who' = "d"
           /\ IF active
                 THEN /\ force' = TRUE
                 ELSE /\ TRUE
                      /\ force' = force
           /\ pc' = [pc EXCEPT !["d"] = "D_done"]
           /\ UNCHANGED << active, closed, aborts, saves, data, ran, err, icpt, 
                           held, dheld >>

D_done == /\ pc["d"] = "D_done"
          /\ TRUE
          /\ pc' = [pc EXCEPT !["d"] = "Done"]
          /\ UNCHANGED << active, closed, aborts, saves, force, data, ran, who, 
                          err, icpt, held, dheld >>

discarder == D_start \/ D_discA \/ D_discB \/ D_discC \/ D_force \/ D_done

M_join == /\ pc["m"] = "M_join"
          /\ (\A w \in Workers : pc[w] = "Done") /\ pc["d"] = "Done"
          /\ who' = "m"
          /\ pc' = [pc EXCEPT !["m"] = "M_end"]
          /\ UNCHANGED << active, closed, aborts, saves, force, data, ran, err, 
                          icpt, held, dheld >>

M_end == /\ pc["m"] = "M_end"
         /\ who' = "m"
         /\ IF active
               THEN /\ saves' = saves + 1
                    /\ active' = FALSE
                    /\ force' = FALSE
               ELSE /\ TRUE
                    /\ UNCHANGED << active, saves, force >>
         /\ pc' = [pc EXCEPT !["m"] = "Done"]
         /\ UNCHANGED << closed, aborts, data, ran, err, icpt, held, dheld >>

main == M_join \/ M_end

(* Allow infinite stuttering to prevent deadlock on termination. *)
Terminating == /\ \A self \in ProcSet: pc[self] = "Done"
               /\ UNCHANGED vars

Next == discarder \/ main
           \/ (\E self \in Workers: worker(self))
           \/ Terminating

Spec == /\ Init /\ [][Next]_vars
        /\ \A self \in Workers : WF_vars(worker(self))
        /\ WF_vars(discarder)
        /\ WF_vars(main)

Termination == <>(\A self \in ProcSet: pc[self] = "Done")

\* END TRANSLATION

AllDone == \A p \in Workers \cup {"d", "m"} : pc[p] = "Done"
\* every wrapped body runs exactly once, no thread ends in a framework error
Transparent == AllDone => (\A w \in Workers : ran[w] = 1) /\ err = {}
BodyAtMostOnce == \A w \in Workers : ran[w] <= 1
IdleAtEnd == AllDone => ~active /\ ~force
\* saved only if nothing was discarded
SaveXorAbort == AllDone => (saves = 1) # (aborts >= 1)
Terminates == <>AllDone
=============================================================================
