---------------------------- MODULE RecorderTrace ----------------------------
(***************************************************************************)
(* Trace specification for executions of the real TapeRecorder logged by   *)
(* the guarded hooks (PLAYBACK_VERIF_TRACE): the repository's own test     *)
(* suite and free-running harness workloads.  One trace = the events of    *)
(* one recorder object in the order of the per-process sequence number.    *)
(* The abstract state is the projection of Recorder.tla that the hooks     *)
(* expose (phase, whether the recording is still active, per-alias output  *)
(* ordinals); each event must be an enabled action:                        *)
(*   op_start    only when idle                                            *)
(*   write       only into the active recording of the running operation   *)
(*   out         ordinal = previous ordinal of that alias + 1, mode =      *)
(*               phase (ordinals restart with every operation / replay)    *)
(*   discard     only while a recording is active; clears the ordinals     *)
(*   finalise    exactly once per operation; "discarded" iff the recording *)
(*               was discarded; afterwards idle                            *)
(*   play_start / play_end   only when idle / playing; nothing is written  *)
(*               or finalised while playing                                *)
(* Many traces are validated in one TLC run (tid picks one, l walks it).   *)
(***************************************************************************)
EXTENDS Naturals, Sequences, TLC, Json, IOUtils

Traces == JsonDeserialize(IOEnv.TRACE_FILE)

VARIABLES tid, l, phase, active, cur, cnt
vars == <<tid, l, phase, active, cur, cnt>>

Trace == Traces[tid].events
Ev    == Trace[l]
Count(a) == IF a \in DOMAIN cnt THEN cnt[a] ELSE 0

Init == /\ tid \in 1 .. Len(Traces)
        /\ l = 1 /\ phase = "idle" /\ active = FALSE /\ cur = "" /\ cnt = <<>>

OpStart == /\ Ev.e = "op_start" /\ phase = "idle"
           /\ phase' = "rec" /\ active' = TRUE /\ cur' = Ev.rid /\ cnt' = <<>>
Write == /\ Ev.e = "write" /\ phase = "rec" /\ active /\ Ev.rid = cur
         /\ UNCHANGED <<phase, active, cur, cnt>>
Out == /\ Ev.e = "out" /\ phase \in {"rec", "play"}
       /\ Ev.mode = phase
       /\ (phase = "rec" => active)
       /\ Ev.n = Count(Ev.alias) + 1
       /\ cnt' = [a \in (DOMAIN cnt) \cup {Ev.alias} |-> IF a = Ev.alias THEN Ev.n ELSE cnt[a]]
       /\ UNCHANGED <<phase, active, cur>>
Discard == /\ Ev.e = "discard" /\ phase = "rec" /\ active
           /\ active' = FALSE /\ cnt' = <<>>
           /\ UNCHANGED <<phase, cur>>
Finalise == /\ Ev.e = "finalise" /\ phase = "rec"
            /\ (Ev.decision = "discarded") <=> ~active
            /\ (active => Ev.rid = cur)
            /\ phase' = "idle" /\ active' = FALSE /\ cur' = "" /\ cnt' = <<>>
PlayStart == /\ Ev.e = "play_start" /\ phase = "idle"
             /\ phase' = "play" /\ cur' = Ev.rid /\ cnt' = <<>>
             /\ UNCHANGED active
PlayEnd == /\ Ev.e = "play_end" /\ phase = "play"
           /\ phase' = "idle" /\ cur' = "" /\ cnt' = <<>>
           /\ UNCHANGED active

Next == /\ l <= Len(Trace)
        /\ (OpStart \/ Write \/ Out \/ Discard \/ Finalise \/ PlayStart \/ PlayEnd)
        /\ l' = l + 1
        /\ UNCHANGED tid
Spec == Init /\ [][Next]_vars

Accepted == l = Len(Trace) + 1
Report == (Accepted => PrintT(<<"ACCEPT", Traces[tid].id>>)) /\ TRUE
=============================================================================
