CONSTANT H = 16
CONSTANT Step = 6
CONSTANT Pinned = TRUE
INIT Init
NEXT Next
INVARIANT NoneMissed
CHECK_DEADLOCK FALSE
