----------------------------- MODULE FileHandler -----------------------------
(***************************************************************************)
(* File interception data handlers: one full trip of a file through        *)
(* recorder and cassette.                                                  *)
(*   Prepare   (while recording) the handler looks at the file named by    *)
(*             the intercepted call: above the size limit it records the   *)
(*             documented placeholder WITHOUT reading the file, otherwise  *)
(*             the bytes                                                   *)
(*   Persist   the recording goes through a cassette and is fetched again  *)
(*   Restore   (while replaying) input handler: the bytes are written to   *)
(*             the path named by the *replayed* call; output handler: the  *)
(*             bytes are available from a holder object                    *)
(* The restore does not look at what is at the path (cfg.pre): whatever is  *)
(* there is replaced.                                                      *)
(* Sizes are classes around the limit; contents are tokens the harness     *)
(* concretises (empty, binary with NULs and high bytes, CR/LF newlines,    *)
(* text equal to the placeholder, random bytes).                           *)
(***************************************************************************)
EXTENDS Naturals, FiniteSets, TLC

CONSTANTS Sizes,      \* subset of {"empty", "tiny", "Lm1", "L", "Lp1", "big"}
          Contents,   \* content classes
          LimitSrcs,  \* subset of {"explicit", "env", "envbig", "zero", "envfrac"}: zero = explicit limit 0, envfrac = the
                      \* environment variable holds a fraction below 1 (truncated to 0): only the empty file is not above
          Roles,      \* subset of {"input", "output"}
          PathBys,    \* subset of {"position", "keyword"}
          Cassettes,  \* cassette types
          ReplayPaths, \* subset of {"same", "other"}: does the replayed call name the recorded path or another one
          Twices,     \* subset of BOOLEAN: does the operation pass a *second* file through the same handler at the same
                      \* path, of the same size but with other bytes (and the same modification time)?  Every interception
                      \* records the bytes the file has at that moment.
          Pres        \* what is at the replayed path when the replay starts: subset of {"absent", "sameSizeOtherBytes",
                      \* "shorter", "identical"} (inputs only; a restore replaces whatever is there)

VARIABLES cfg, phase, recorded, wasRead, restored, restoredAt
vars == <<cfg, phase, recorded, wasRead, restored, restoredAt>>

\* with a limit of zero every non-empty file is above the limit
Above(size) == IF cfg.limitSrc \in {"zero", "envfrac"} THEN size # "empty" ELSE size \in {"Lp1", "big"}
\* the placeholder-length file only exists as the "tiny" size
ContentOK(size, content) == (content = "placeholderText") <=> (size = "tiny")

Init == /\ \E s \in Sizes, c \in Contents, l \in LimitSrcs, r \in Roles, p \in PathBys, k \in Cassettes, rp \in ReplayPaths, pre \in Pres, tw \in Twices :
              /\ ContentOK(s, c)
              /\ (s = "empty" => c = "emptyBytes") /\ (c = "emptyBytes" => s = "empty")
              /\ (r = "output" => rp = "same" /\ pre = "absent")
              /\ (l \in {"zero", "envfrac"} => s \in {"empty", "tiny", "Lp1", "big"})
              /\ (tw => pre = "absent" /\ rp = "same" /\ p = "position" /\ s \notin {"empty", "big"} /\ c \in {"binary", "placeholderText"})
              /\ cfg = [size |-> s, content |-> c, limitSrc |-> l, role |-> r, pathBy |-> p, cassette |-> k, replayPath |-> rp,
                        pre |-> pre, twice |-> tw]
        /\ phase = "start" /\ recorded = "" /\ wasRead = FALSE /\ restored = "" /\ restoredAt = ""

Prepare == /\ phase = "start"
           /\ recorded' = IF Above(cfg.size) THEN "placeholder" ELSE "bytes"
           /\ wasRead' = ~Above(cfg.size)          \* size is checked *before* the file is opened
           /\ phase' = "prepared"
           /\ UNCHANGED <<cfg, restored, restoredAt>>
Persist == /\ phase = "prepared" /\ phase' = "persisted"
           /\ UNCHANGED <<cfg, recorded, wasRead, restored, restoredAt>>
Restore == /\ phase = "persisted"
           /\ restored' = IF recorded = "bytes" THEN cfg.content ELSE "placeholder"
           /\ restoredAt' = IF cfg.role = "input" THEN cfg.replayPath ELSE "holder"
           /\ phase' = "done"
           /\ UNCHANGED <<cfg, recorded, wasRead>>
Next == Prepare \/ Persist \/ Restore \/ (phase = "done" /\ UNCHANGED vars)
Spec == Init /\ [][Next]_vars

PlaceholderIffAbove == phase # "start" => ((recorded = "placeholder") <=> Above(cfg.size))
NeverReadAbove == Above(cfg.size) => ~wasRead
RoundTrip == (phase = "done" /\ ~Above(cfg.size)) => restored = cfg.content
RestoredAtReplayPath == (phase = "done" /\ cfg.role = "input") => restoredAt = cfg.replayPath
=============================================================================
