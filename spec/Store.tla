-------------------------------- MODULE Store --------------------------------
(***************************************************************************)
(* The abstract cassette every cassette type (in-memory, file-based, S3    *)
(* with any key prefix) must refine: save / fetch / fetch metadata /       *)
(* fetch unknown / lookup by category + metadata filter + limit / mutate   *)
(* what was fetched and fetch again / save again / copy into a sibling.    *)
(*                                                                         *)
(* Recordings are numbered in save order; the harness maps numbers to the  *)
(* ids each cassette mints.  Data content is a token chosen by the harness *)
(* (C07 concretises it adversarially); metadata are three typed keys so    *)
(* that the filter semantics of MetaFilterOps decide lookups.              *)
(***************************************************************************)
EXTENDS MetaFilterOps

CONSTANTS Cats,        \* categories (may be string prefixes of one another, may contain underscores)
          Metas,       \* set of metadata records [k1, k2, inc]
          FilterNames, \* subset of the names understood by FilterDef
          Limits,      \* subset of Nat; 0 stands for "no limit"
          Randoms,     \* subset of BOOLEAN: ordered / random listing
          Ops,         \* subset of {"get","getmeta","unknown","list","default","mutate","resave","promote","failsave"}
          Probes,      \* subset of BOOLEAN: is the id looked up (get / get-metadata) between create and save?
          MaxSaves, MaxQueries,
          Population   \* sequence of [cat, meta] already saved in the initial state

VARIABLES saved, nq, ev
vars == <<saved, nq, ev>>

Ev0 == [kind |-> "init", cat |-> "", id |-> 0, filter |-> "", limit |-> 0, random |-> FALSE, matches |-> {}, probed |-> FALSE,
        count |-> 0, unknown |-> "", meta |-> [k1 |-> Absent, k2 |-> Absent, inc |-> Absent]]

FilterDef(name) ==
    CASE name = "none"      -> <<>>
      [] name = "k1a"       -> [k \in {"k1"} |-> Pat(<<Lit("a")>>)]
      [] name = "k1aOrNone" -> [k \in {"k1"} |-> ListF(<<Pat(<<Lit("a")>>), Atom(NoneV)>>)]
      [] name = "k2ge1"     -> [k \in {"k2"} |-> OpF(">=", Num(10))]
      [] name = "k1star_k2" -> [k \in {"k1", "k2"} |-> IF k = "k1" THEN Pat(<<Lit("a"), Star>>) ELSE Atom(Num(10))]
      [] name = "k2is1"     -> [k \in {"k2"} |-> Atom(Num(10))]
      [] name = "k1dict"    -> [k \in {"k1"} |-> Atom(Dict(1))]       \* a nested (dict) metadata value, matched by equality
      [] name = "skipinc"   -> [k \in {"inc"} |-> ListF(<<Atom(Bool(FALSE)), Atom(NoneV)>>)]
      [] name = "skipinc_k1a" -> [k \in {"inc", "k1"} |-> IF k = "inc" THEN ListF(<<Atom(Bool(FALSE)), Atom(NoneV)>>)
                                                          ELSE Pat(<<Lit("a")>>)]

MatchAll(F, m) == \A key \in DOMAIN F : Match(F[key], m[key])
Matches(cat, fname) == {i \in 1 .. Len(saved) : saved[i].cat = cat /\ MatchAll(FilterDef(fname), saved[i].meta)}
Min(a, b) == IF a < b THEN a ELSE b

Init == /\ saved = Population
        /\ nq = 0
        /\ ev = Ev0

\* create + fill + save; with `probe' the freshly minted id is looked up through the saving cassette before the save
\* (it is unknown then: nothing is stored until save) and again right after it (it is stored now)
Save(cat, m, probe) ==
    /\ Len(saved) < MaxSaves
    /\ saved' = Append(saved, [cat |-> cat, meta |-> m])
    /\ ev' = [Ev0 EXCEPT !.kind = "save", !.cat = cat, !.meta = m, !.id = Len(saved) + 1, !.probed = probe]
    /\ UNCHANGED nq

Query(k, i) ==
    /\ nq < MaxQueries /\ k \in Ops /\ k \in {"get", "getmeta", "mutate"}
    /\ i \in 1 .. Len(saved)
    /\ ev' = [Ev0 EXCEPT !.kind = k, !.id = i, !.cat = saved[i].cat, !.meta = saved[i].meta]
    /\ nq' = nq + 1
    /\ UNCHANGED saved

\* a fetched recording is saved again under its own id (e.g. after adding metadata): it replaces itself, the store
\* still holds one recording with that id
\* ... the metadata added before the re-save (m; absent entries add nothing) is merged into the stored metadata
MergeMeta(old, new) == [k \in {"k1", "k2", "inc"} |-> IF new[k] = Absent THEN old[k] ELSE new[k]]
Resave(i, m) ==
    /\ "resave" \in Ops /\ nq < MaxQueries
    /\ i \in 1 .. Len(saved)
    /\ saved' = [saved EXCEPT ![i].meta = MergeMeta(@, m)]
    /\ ev' = [Ev0 EXCEPT !.kind = "resave", !.id = i, !.cat = saved[i].cat, !.meta = m]
    /\ nq' = nq + 1

\* a fetched recording is saved - with added metadata m - into a *sibling* cassette (another key prefix of the same bucket,
\* another directory, another in-memory cassette), e.g. to promote a production recording into a regression suite: the
\* sibling holds the merged copy under the same id, this store does not change
Promote(i, m) ==
    /\ "promote" \in Ops /\ nq < MaxQueries
    /\ i \in 1 .. Len(saved)
    /\ ev' = [Ev0 EXCEPT !.kind = "promote", !.id = i, !.cat = saved[i].cat, !.meta = m]
    /\ nq' = nq + 1
    /\ UNCHANGED saved

\* a save that fails inside the cassette (the recording cannot be serialised): nothing of it is stored, later lookups
\* and fetches behave as if it had never been attempted
FailedSave(cat) ==
    /\ "failsave" \in Ops /\ nq < MaxQueries
    /\ ev' = [Ev0 EXCEPT !.kind = "failsave", !.cat = cat]
    /\ nq' = nq + 1
    /\ UNCHANGED saved

\* ids that were never saved: fresh, a strict string prefix of a saved id, a saved id with a suffix, other category
GetUnknown(u) ==
    /\ nq < MaxQueries /\ "unknown" \in Ops
    /\ u \in {"fresh", "prefix", "extension", "othercat"}
    /\ u # "fresh" => Len(saved) > 0
    /\ ev' = [Ev0 EXCEPT !.kind = "unknown", !.unknown = u, !.id = Len(saved)]
    /\ nq' = nq + 1
    /\ UNCHANGED saved

List(cat, fname, limit, rnd) ==
    /\ nq < MaxQueries /\ "list" \in Ops
    /\ LET ms == Matches(cat, fname) IN
       ev' = [Ev0 EXCEPT !.kind = "list", !.cat = cat, !.filter = fname, !.limit = limit, !.random = rnd,
                         !.matches = ms,
                         !.count = IF limit = 0 THEN Cardinality(ms) ELSE Min(limit, Cardinality(ms))]
    /\ nq' = nq + 1
    /\ UNCHANGED saved

\* the default lookup of recordings_lookup.find_matching_recording_ids (skip incomplete), optionally with a user filter
ListDefault(cat, withUser, limit) ==
    /\ nq < MaxQueries /\ "default" \in Ops
    /\ LET fname == IF withUser THEN "skipinc_k1a" ELSE "skipinc"
           ms == Matches(cat, fname) IN
       ev' = [Ev0 EXCEPT !.kind = "default", !.cat = cat, !.filter = fname, !.limit = limit,
                         !.matches = ms,
                         !.count = IF limit = 0 THEN Cardinality(ms) ELSE Min(limit, Cardinality(ms))]
    /\ nq' = nq + 1
    /\ UNCHANGED saved

Next ==
    \/ \E c \in Cats, m \in Metas, p \in Probes : Save(c, m, p)
    \/ \E k \in Ops, i \in 1 .. MaxSaves : Query(k, i)
    \/ \E u \in {"fresh", "prefix", "extension", "othercat"} : GetUnknown(u)
    \/ \E i \in 1 .. MaxSaves, m \in Metas : Resave(i, m)
    \/ \E i \in 1 .. MaxSaves, m \in Metas : Promote(i, m)
    \/ \E c \in Cats : FailedSave(c)
    \/ \E c \in Cats, fn \in FilterNames, l \in Limits, r \in Randoms : List(c, fn, l, r)
    \/ \E c \in Cats, w \in BOOLEAN, l \in Limits : ListDefault(c, w, l)

Spec == Init /\ [][Next]_vars

-----------------------------------------------------------------------------
ListSound  == ev.kind \in {"list", "default"} => \A i \in ev.matches : saved[i].cat = ev.cat
CountBound == ev.kind \in {"list", "default"} => ev.count <= Cardinality(ev.matches)
\* the skip-incomplete filter excludes the recordings flagged incomplete and only those
DefaultExcludesExactlyIncomplete ==
    (ev.kind = "default" /\ ev.filter = "skipinc") =>
        \A i \in 1 .. Len(saved) : (i \in ev.matches) <=> (saved[i].cat = ev.cat /\ saved[i].meta.inc # Bool(TRUE))
\* a filter on a key never matches a recording that lacks the key, unless None is an alternative
AbsentKeyNeverMatchesPlain ==
    (ev.kind = "list" /\ ev.filter = "k1a") => \A i \in ev.matches : saved[i].meta.k1 # Absent
=============================================================================
