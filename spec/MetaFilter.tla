----------------------------- MODULE MetaFilter -----------------------------
(***************************************************************************)
(* The documented semantics of TapeCassette.match_against_recorded_metadata*)
(* (one filter entry against one recorded metadata value) over a small     *)
(* typed universe, with Python's equality / ordering rules made explicit.  *)
(*                                                                         *)
(*   list filter        any alternative matches                            *)
(*   operator object    {'operator': op, 'value': x}: recorded op x, for   *)
(*                      op in = < <= > >=; unknown operator: no match;     *)
(*                      values that cannot be ordered: no match            *)
(*   missing / None     matches only a None alternative                    *)
(*   string filter      shell-style pattern against *string* values        *)
(*   anything else      Python equality (True = 1 = 1.0, 0 = False)        *)
(*                                                                         *)
(* The module is combinational: Init enumerates every <<filter, value>>    *)
(* pair of the universe, `res' is what the documentation prescribes.  The  *)
(* harness evaluates the real matcher on every pair (never raises, equals  *)
(* res) - directly and through iter_recording_ids of every cassette - and  *)
(* TLC checks the documentation clauses as invariants over all pairs, so a *)
(* wrong transcription is caught by TLC and not only by the code.          *)
(***************************************************************************)
EXTENDS MetaFilterOps

CONSTANTS MaxAlts      \* longest list of alternatives

VARIABLES f, v, res
vars == <<f, v, res>>

-----------------------------------------------------------------------------
(* the universe *)
Values == {Absent, NoneV, Bool(TRUE), Bool(FALSE), Num(0), Num(10), Num(15), Num(50), Num(-10),
           Str(<<>>), Str(<<"a">>), Str(<<"a", "b">>), Str(<<"b">>), Str(<<"1">>), Dict(1), Dict(2), Dict(3), Dict(4)}
\* Dict(3), Dict(4): plain dicts that have only one of the two keys of an operator object (the harness concretises them
\* as {'operator': '<', 'threshold': 3} and {'value': 10, 'unit': 's'}): they are plain values, compared by equality

Patterns == {<<>>, <<Lit("a")>>, <<Lit("a"), Lit("b")>>, <<Lit("1")>>, <<Lit("a"), Star>>, <<Any1, Lit("b")>>, <<Star>>,
             <<Set({"a", "c"}), Lit("b")>>, <<NSet({"a"})>>, <<Star, Lit("b")>>, <<Any1>>}

Ops == {"=", "<", "<=", ">", ">=", "!="}      \* "!=" stands for any unknown operator

AtomVals  == {NoneV, Bool(TRUE), Bool(FALSE), Num(0), Num(10), Num(15), Num(50), Dict(1), Dict(3), Dict(4)}
OpVals    == {NoneV, Bool(TRUE), Num(10), Num(15), Str(<<"a">>), Str(<<"a", "b">>), Dict(1)}
Simple    == {Atom(x) : x \in AtomVals} \cup {Pat(p) : p \in Patterns} \cup {OpF(o, x) : o \in Ops, x \in OpVals}
\* alternatives used inside lists (a representative subset keeps the universe a few thousand pairs)
AltPool   == {Atom(NoneV), Atom(Bool(FALSE)), Atom(Num(10)), Pat(<<Lit("a"), Star>>), Pat(<<Lit("b")>>),
              OpF(">", Num(10)), OpF("=", NoneV), OpF("<", Str(<<"a", "b">>))}
Lists1    == {ListF(<<>>)} \cup {ListF(<<a>>) : a \in AltPool} \cup {ListF(<<a, b>>) : a \in AltPool, b \in AltPool}
Nested    == {ListF(<<ListF(<<a>>), b>>) : a \in {Atom(NoneV), Atom(Num(10))}, b \in {Pat(<<Lit("a"), Star>>), Atom(Bool(FALSE))}}
Filters   == Simple \cup (IF MaxAlts >= 2 THEN Lists1 \cup Nested ELSE {ListF(<<a>>) : a \in AltPool})

-----------------------------------------------------------------------------
Init == /\ f \in Filters
        /\ v \in Values
        /\ res = Match(f, v)
Next == UNCHANGED vars
Spec == Init /\ [][Next]_vars

-----------------------------------------------------------------------------
(* the documentation clauses, as lemmas over the whole universe *)
Total == res \in BOOLEAN

RECURSIVE HasNoneAlt(_)
HasNoneAlt(g) == CASE g.k = "list" -> \E i \in 1 .. Len(g.alts) : HasNoneAlt(g.alts[i])
                   [] g.k = "atom" -> g.x.ty = "none"
                   [] g.k = "op"   -> g.op = "=" /\ g.x.ty = "none"
                   [] OTHER        -> FALSE
MissingMatchesOnlyNone == v.ty \in {"absent", "none"} => (res <=> HasNoneAlt(f))
AbsentIsNone == TRUE     \* (absent and None are indistinguishable: checked by the harness pairing them)
ListIsAny == f.k = "list" => (res <=> \E i \in 1 .. Len(f.alts) : Match(f.alts[i], v))
EmptyListMatchesNothing == (f.k = "list" /\ f.alts = <<>>) => ~res
PlainIsEquality == (f.k = "atom" /\ v.ty \notin {"absent", "none"}) => (res <=> PyEq(v, f.x))
BoolIsNumber == (f = Atom(Num(10)) /\ v = Bool(TRUE)) => res
PatternOnlyOnStrings == (f.k = "pat" /\ v.ty # "str") => ~res
StarMatchesEveryString == (f = Pat(<<Star>>) /\ v.ty = "str") => res
UnknownOperatorNeverMatches == (f.k = "op" /\ f.op = "!=") => ~res
OrderingNeedsComparable == (f.k = "op" /\ f.op \in {"<", "<=", ">", ">="} /\ ~Comparable(Rec(v), f.x)) => ~res
Trichotomy == (f.k = "op" /\ f.op = "<" /\ Comparable(Rec(v), f.x)) =>
                  (res <=> ~Match(OpF(">=", f.x), v))
=============================================================================
