--------------------------- MODULE MetaFilterOps ---------------------------
(***************************************************************************)
(* Pure operators: typed metadata values, filters, and the documented      *)
(* matching semantics (see MetaFilter.tla, which enumerates a universe     *)
(* over them; Store.tla and S3Bucket.tla use the same Match).              *)
(***************************************************************************)
EXTENDS Naturals, Integers, Sequences, FiniteSets, TLC

(* values: uniform records so that TLC never compares values of different TLA+ types *)
Val(ty, n, s) == [ty |-> ty, n |-> n, s |-> s]
Absent   == Val("absent", 0, <<>>)
NoneV    == Val("none", 0, <<>>)
Bool(b)  == Val("bool", IF b THEN 1 ELSE 0, <<>>)
Num(t)   == Val("num", t, <<>>)          \* tenths: Num(15) is 1.5, Num(10) is 1
Str(s)   == Val("str", 0, s)
Dict(i)  == Val("dict", i, <<>>)         \* dict number i (two different dicts, equal only to themselves)

\* pattern tokens
Lit(c)   == [t |-> "lit", c |-> c, cs |-> {}]
Any1     == [t |-> "any", c |-> "", cs |-> {}]
Star     == [t |-> "star", c |-> "", cs |-> {}]
Set(cs)  == [t |-> "set", c |-> "", cs |-> cs]
NSet(cs) == [t |-> "nset", c |-> "", cs |-> cs]

\* filters: uniform records; k in atom / pat / op / list
Filt(k, x, op, p, alts) == [k |-> k, x |-> x, op |-> op, p |-> p, alts |-> alts]
Atom(x)    == Filt("atom", x, "", <<>>, <<>>)
Pat(p)     == Filt("pat", Absent, "", p, <<>>)
OpF(op, x) == Filt("op", x, op, <<>>, <<>>)
ListF(as)  == Filt("list", Absent, "", <<>>, as)

-----------------------------------------------------------------------------
(* Python semantics *)
IsNumeric(a)   == a.ty \in {"bool", "num"}
Numeric(a)     == IF a.ty = "bool" THEN a.n * 10 ELSE a.n
PyEq(a, b)     == \/ IsNumeric(a) /\ IsNumeric(b) /\ Numeric(a) = Numeric(b)
                  \/ a.ty = b.ty /\ ~IsNumeric(a) /\ a = b
Comparable(a, b) == \/ IsNumeric(a) /\ IsNumeric(b)
                    \/ a.ty = "str" /\ b.ty = "str"

\* lexicographic order on strings (sequences of one-character strings; characters ordered by Rank)
Rank(c) == CASE c = "1" -> 1 [] c = "a" -> 2 [] c = "b" -> 3 [] c = "c" -> 4 [] OTHER -> 0
RECURSIVE StrLess(_, _)
StrLess(s, t) == IF t = <<>> THEN FALSE
                 ELSE IF s = <<>> THEN TRUE
                 ELSE IF Head(s) = Head(t) THEN StrLess(Tail(s), Tail(t))
                 ELSE Rank(Head(s)) < Rank(Head(t))
Less(a, b) == IF a.ty = "str" THEN StrLess(a.s, b.s) ELSE Numeric(a) < Numeric(b)

Cmp(op, a, b) ==
    CASE op = "="  -> PyEq(a, b)
      [] op = "<"  -> Comparable(a, b) /\ Less(a, b)
      [] op = "<=" -> Comparable(a, b) /\ (Less(a, b) \/ PyEq(a, b))
      [] op = ">"  -> Comparable(a, b) /\ Less(b, a)
      [] op = ">=" -> Comparable(a, b) /\ (Less(b, a) \/ PyEq(a, b))
      [] OTHER     -> FALSE

RECURSIVE Glob(_, _)
Glob(p, s) ==
    IF p = <<>> THEN s = <<>>
    ELSE LET h == Head(p) IN
         CASE h.t = "star" -> Glob(Tail(p), s) \/ (s # <<>> /\ Glob(p, Tail(s)))
           [] h.t = "any"  -> s # <<>> /\ Glob(Tail(p), Tail(s))
           [] h.t = "lit"  -> s # <<>> /\ Head(s) = h.c /\ Glob(Tail(p), Tail(s))
           [] h.t = "set"  -> s # <<>> /\ Head(s) \in h.cs /\ Glob(Tail(p), Tail(s))
           [] h.t = "nset" -> s # <<>> /\ Head(s) \notin h.cs /\ Glob(Tail(p), Tail(s))

\* metadata.get(key): a missing key reads as None
Rec(x) == IF x.ty = "absent" THEN NoneV ELSE x

RECURSIVE Match(_, _)
Match(g, x) ==
    CASE g.k = "list" -> \E i \in 1 .. Len(g.alts) : Match(g.alts[i], x)
      [] g.k = "op"   -> Cmp(g.op, Rec(x), g.x)
      [] g.k = "pat"  -> Rec(x).ty = "str" /\ Glob(g.p, Rec(x).s)
      [] OTHER        -> IF Rec(x).ty = "none" THEN g.x.ty = "none" ELSE PyEq(Rec(x), g.x)

-----------------------------------------------------------------------------
=============================================================================
