--------------------------- MODULE AsyncImplTrace ---------------------------
(***************************************************************************)
(* Implementation-level trace specification for AsyncCassette: every       *)
(* boundary event logged by the deterministic scheduler while the real     *)
(* AsyncRecordOnlyTapeCassette runs must be an enabled action *of the      *)
(* PlusCal specification itself* (its translated actions are reused), with *)
(* the logged fields bound to the specification's variables:               *)
(*   acquire by a producer  ->  P_put(p)     the op appended is the        *)
(*                                           producer's next scripted op   *)
(*   is_set  by the flusher ->  F_chk        logged flag value = stop      *)
(*   acquire by the flusher ->  F_swap                                      *)
(*   storage                ->  F_exec       logged op = Head(batch)       *)
(*   wait                   ->  F_wait       possibly after a (silent,     *)
(*                                           unlogged) timer firing        *)
(*   set / joined / storage_close by the closer -> C_stop / C_join / C_close*)
(* Many traces (schedules of one workload) are validated in one TLC run.   *)
(***************************************************************************)
EXTENDS AsyncCassette, Json, IOUtils

Traces == JsonDeserialize(IOEnv.TRACE_FILE)

VARIABLES tid, l
tvars == <<vars, tid, l>>

Trace == Traces[tid].events
Ev    == Trace[l]

TraceInit == Init /\ tid \in 1 .. Len(Traces) /\ l = 1

IsEv(e, by) == l <= Len(Trace) /\ Ev.e = e /\ Ev.by = by

TPut(p)  == IsEv("acquire", p) /\ producer(p) /\ Ev.o = Script[p][i[p]]
TChk     == IsEv("is_set", "fl") /\ F_chk /\ Ev.flag = stop
TSwap    == IsEv("acquire", "fl") /\ F_swap
TExec    == IsEv("storage", "fl") /\ F_exec /\ Ev.o = Head(batch) /\ (Ev.ok <=> Head(batch) \notin Failing)
\* the flush-interval timer is not logged: it fires silently, only when the next logged event is a wait that could not
\* return otherwise (so the number of silent steps is bounded by the trace)
TWait    == IsEv("wait", "fl") /\ F_wait /\ (Ev.ok => stop')
TTimer   == /\ l <= Len(Trace) /\ Ev.e = "wait" /\ pc["fl"] = "F_wait" /\ ~stop /\ timer = 0
            /\ T_fire
TStop    == IsEv("set", "cl") /\ C_stop
TJoin    == IsEv("joined", "cl") /\ C_join
TClose   == IsEv("storage_close", "cl") /\ C_close

TraceNext == \/ /\ (\/ \E p \in Producers : TPut(p)
                     \/ TChk \/ TSwap \/ TExec \/ TWait \/ TStop \/ TJoin \/ TClose)
                /\ l' = l + 1
                /\ UNCHANGED tid
             \/ /\ TTimer
                /\ UNCHANGED <<tid, l>>
TraceSpec == TraceInit /\ [][TraceNext]_tvars

\* the specification's invariants are evaluated at every step of every real execution
TraceInv == ExactlyOnceInOrder /\ AtClose

Accepted == l = Len(Trace) + 1
Report == (Accepted => PrintT(<<"ACCEPT", Traces[tid].id>>)) /\ TRUE
=============================================================================
