CONSTANT MaxAlts = 2
INIT Init
NEXT Next
INVARIANT Total
INVARIANT MissingMatchesOnlyNone
INVARIANT ListIsAny
INVARIANT EmptyListMatchesNothing
INVARIANT PlainIsEquality
INVARIANT BoolIsNumber
INVARIANT PatternOnlyOnStrings
INVARIANT StarMatchesEveryString
INVARIANT UnknownOperatorNeverMatches
INVARIANT OrderingNeedsComparable
INVARIANT Trichotomy
CHECK_DEADLOCK FALSE
