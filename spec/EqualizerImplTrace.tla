------------------------- MODULE EqualizerImplTrace -------------------------
(***************************************************************************)
(* Implementation-level trace specification for Equalizer.tla: the         *)
(* boundary events the deterministic scheduler logs while the real         *)
(* Equalizer.run_comparison and the real _playback_process_target run      *)
(* (multiprocessing calls of parent and workers) must be a behaviour of    *)
(* the specification itself - its actions are reused, the logged fields    *)
(* are bound to its variables:                                             *)
(*   prepare(new)   parent: tasks.put, preceded by Process.start iff new   *)
(*                  -> P_Prepare, new <=> NeedsNew                         *)
(*   take(g)        worker g: tasks.get returned        -> W_Take(g)       *)
(*   answer(g, ok)  worker g: results.put((ok, ..)) -> W_Finish(g) / W_LatePut(g)*)
(*   got            parent: results.get returned        -> P_Get           *)
(*   kill           parent: os.kill                     -> P_Kill          *)
(*   finally        parent: terminate.set() of the finally block           *)
(*                                                      -> P_Finally       *)
(*   out(verdicts)  what the consumer received: equals the model's `out'   *)
(* Not logged (silent steps, each enabled at most once per state of the    *)
(* parent / worker, so their number is bounded by the trace): a worker     *)
(* exits (W_Exit, W_IdleExit), the parent notices the death (P_Died) or that the       *)
(* time-out elapsed (P_GiveUp), the consumer takes a comparison            *)
(* (P_Consume), an idle worker sees the terminate event (W_Terminate).     *)
(* The scenario (behaviour per recording, where the consumer stops) is     *)
(* bound from the trace header; many traces are validated in one TLC run.  *)
(***************************************************************************)
EXTENDS Equalizer, Json, IOUtils

Traces == JsonDeserialize(IOEnv.TRACE_FILE)

VARIABLES tid, l
tvars == <<vars, tid, l>>

Trace == Traces[tid].events
Ev    == Trace[l]

TraceInit == /\ tid \in 1 .. Len(Traces)
             /\ Init
             /\ beh = Traces[tid].beh
             /\ stop = Traces[tid].stop
             /\ l = 1

IsEv(e) == l <= Len(Trace) /\ Ev.e = e

TPrepare   == IsEv("prepare") /\ (Ev.new <=> NeedsNew) /\ P_Prepare
TTake(g)   == IsEv("take") /\ Ev.g = g /\ W_Take(g)
TAnswer(g) == /\ IsEv("answer") /\ Ev.g = g /\ (W_Finish(g) \/ W_LatePut(g))
              /\ LET q == results'[QW(g)] IN q[Len(q)].ok = Ev.ok      \* the `succeeded' flag of the pair it put
TGot       == IsEv("got") /\ P_Get
TKill      == IsEv("kill") /\ P_Kill
TFinally   == IsEv("finally") /\ P_Finally
TOut       == /\ IsEv("out") /\ pc = "done"
              /\ Len(Ev.verdicts) = Len(out)
              /\ \A k \in 1 .. Len(out) : out[k].verdict = Ev.verdicts[k] /\ out[k].id = k
              /\ UNCHANGED vars

Silent == \/ P_Died \/ P_GiveUp \/ P_Consume
          \/ \E g \in Gens : W_Exit(g) \/ W_IdleExit(g) \/ W_Terminate(g)

TraceNext == \/ /\ (\/ TPrepare \/ TGot \/ TKill \/ TFinally \/ TOut
                     \/ \E g \in Gens : TTake(g) \/ TAnswer(g))
                /\ l' = l + 1
                /\ UNCHANGED tid
             \/ /\ l <= Len(Trace)
                /\ Silent
                /\ UNCHANGED <<tid, l>>
TraceSpec == TraceInit /\ [][TraceNext]_tvars

\* the specification's safety properties are evaluated at every step of every real execution
TraceInv == Attribution /\ RecycleBound /\ OneWorker

Accepted == l = Len(Trace) + 1
Report == (Accepted => PrintT(<<"ACCEPT", Traces[tid].id>>)) /\ TRUE
=============================================================================
