----------------------------- MODULE TimeWindow -----------------------------
(***************************************************************************)
(* S3TapeCassette.iter_recording_ids with a time window.  Recordings live  *)
(* in one folder per calendar day (<category>/<YYYYMMDD>/<id>); a lookup   *)
(* with a start time enumerates day folders from the start to the end (or  *)
(* now) and filters the objects of those folders by last-modified time.    *)
(* The design question: is "folders ∩ predicate" exactly the window, for   *)
(* every alignment of the window to day boundaries?                        *)
(*                                                                         *)
(* Time is an hour grid 0 .. H-1 (24 hours per day).  One state per        *)
(* (mode, start, end, now); `found' is the set of recording times the      *)
(* design returns among recordings saved at every grid hour <= now,        *)
(* `exact' the set the property demands.                                   *)
(* Folders   = the repaired rule (calendar days from start to end);        *)
(* FoldersPinned = the rule of the pinned code ((end - start).days + 1).   *)
(***************************************************************************)
EXTENDS Naturals, Integers, FiniteSets, TLC

CONSTANTS H,        \* number of grid points
          Step,     \* hours between grid points (1: hour grid, 6: six-hour grid)
          Pinned    \* TRUE: model the pinned folder rule

VARIABLES mode, s, e, now, found, exact
vars == <<mode, s, e, now, found, exact>>

Grid     == {i * Step : i \in 0 .. H - 1}
DayOf(h) == h \div 24
Modes    == {"start_end", "start", "end", "none"}

EndEff(m, ee, n) == IF m \in {"start_end", "end"} THEN ee ELSE n

\* day folders enumerated by the lookup (only when a start is given; otherwise the whole category is listed)
Folders(ss, ee) == {DayOf(ss) + i : i \in 0 .. (DayOf(ee) - DayOf(ss))}
FoldersPinned(ss, ee) == IF ee < ss THEN {} ELSE {DayOf(ss + 24 * i) : i \in 0 .. ((ee - ss) \div 24)}

InFolders(m, ss, ee, n, t) ==
    IF m \in {"start_end", "start"}
    THEN DayOf(t) \in (IF Pinned THEN FoldersPinned(ss, EndEff(m, ee, n)) ELSE Folders(ss, EndEff(m, ee, n)))
    ELSE TRUE

\* last-modified predicate applied by the facade (the *given* bounds only)
Pred(m, ss, ee, t) ==
    /\ (m \in {"start_end", "start"} => ss <= t)
    /\ (m \in {"start_end", "end"} => t <= ee)

Saved(n) == {t \in Grid : t <= n}        \* recordings are not in the future

Init ==
    /\ mode \in Modes
    /\ s \in Grid /\ e \in Grid /\ now \in Grid
    /\ (mode \in {"end", "none"} => s = 0)          \* unused parameters: one representative
    /\ (mode \in {"start", "none"} => e = 0)
    /\ found = {t \in Saved(now) : InFolders(mode, s, e, now, t) /\ Pred(mode, s, e, t)}
    /\ exact = {t \in Saved(now) : /\ (mode \in {"start_end", "start"} => s <= t)
                                   /\ (mode \in {"start_end", "end"} => t <= e)}
Next == UNCHANGED vars
Spec == Init /\ [][Next]_vars

Exact == found = exact
NoneOutside == found \subseteq exact
NoneMissed == exact \subseteq found
=============================================================================
