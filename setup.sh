#!/bin/sh
# Offline setup: parse every specification with SANY (translating PlusCal where needed) and byte-compile the harness.
set -e
cd /verif
/venv/bin/python -m compileall -q pbverif >/dev/null
/venv/bin/python - <<'PY'
import sys, os, glob
sys.path.insert(0, '/verif')
from pbverif import tlc
bad = 0
with tlc.Scratch() as s:
    for f in sorted(glob.glob('/verif/spec/*.tla')):
        mod = os.path.basename(f)[:-4]
        if mod.startswith('MC_'):
            continue
        ok, out = tlc.sany(s, mod)
        print('sany %-24s %s' % (mod, 'ok' if ok else 'FAILED'))
        if not ok:
            print(out[-2000:])
            bad += 1
sys.exit(1 if bad else 0)
PY
