#!/bin/sh
# tools/rebase_seed.sh <seed>: re-express a seeded patch against /repo's current HEAD (3-way apply in a scratch worktree).
S=/verif/seeded/$1
W=$(mktemp -d /tmp/rebase-XXXXXX); rmdir $W
git -C /repo worktree add -q $W HEAD || exit 2
cd $W
if git apply --3way $S/patch.diff >/dev/null 2>&1 && ! git diff --name-only --diff-filter=U | grep -q .; then
  git reset -q
  git diff -- playback > $S/patch.diff.new
  if [ -s $S/patch.diff.new ]; then mv $S/patch.diff.new $S/patch.diff; echo "$1: rebased"; else rm -f $S/patch.diff.new; echo "$1: EMPTY after rebase"; fi
else
  echo "$1: CONFLICT (needs a fresh seed)"
fi
cd /; git -C /repo worktree remove --force $W
