#!/bin/sh
# tools/with_seed.sh <seed-dir-name> <command...>: apply a seeded change to /repo, run the command, undo it.
S=/verif/seeded/$1
shift
git -C /repo apply $S/patch.diff || exit 2
"$@"
RC=$?
git -C /repo checkout -- .
exit $RC
