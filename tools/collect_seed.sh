#!/bin/sh
# tools/collect_seed.sh <Cxx> <n1> <n2>: copy a finished sub-agent worktree's two variants into /verif/seeded and remove the worktree
P=$1
for pair in "1:$2" "2:$3"; do v=${pair%%:*}; n=${pair##*:}; d=/verif/seeded/$P-$n; mkdir -p $d
 if [ $v = 1 ]; then cp /tmp/seed_$P/seeded_patch.diff $d/patch.diff; cp /tmp/seed_$P/demo.py $d/demo.py; else cp /tmp/seed_$P/seeded_patch_2.diff $d/patch.diff; cp /tmp/seed_$P/demo_2.py $d/demo.py; fi
 cp /tmp/seed_$P/notes.md $d/notes.md; done
git -C /repo worktree remove --force /tmp/seed_$P
