#!/bin/sh
# tools/confirm_seed.sh <seed-dir-name>: confirm a seeded change in a scratch worktree of /repo's HEAD:
#   (a) demo passes without the change, (b) change applies, (c) suite still has 105 passes, (d) demo fails with it.
set -u
S=/verif/seeded/$1
W=$(mktemp -d /tmp/confirm-XXXXXX)
rmdir $W
git -C /repo worktree add -q $W HEAD || exit 2
cd $W
cp $S/demo.py demo.py
/venv/bin/python demo.py >/dev/null 2>&1; A=$?
git apply $S/patch.diff; B=$?
N=$(/venv/bin/python -m pytest -q -p no:cacheprovider --timeout=900 --continue-on-collection-errors tests 2>&1 | tail -1)
/venv/bin/python demo.py >/dev/null 2>&1; D=$?
cd /
git -C /repo worktree remove --force $W
echo "$1: demo-without=$A apply=$B suite='$N' demo-with=$D"
