#!/venv/bin/python
"""tools/seed_report.py [seed ...]: for each seeded change (default: all under /verif/seeded) confirm it in a scratch
worktree of /repo's HEAD (demo passes without, patch applies, suite still 105 passes, demo fails with) and run the
property's quick check against a scratch worktree with the change applied; writes seeded/<id>/meta.json and
seeded/README.md."""
import json
import os
import re
import subprocess
import sys

V = '/verif'
if sys.argv[1:] == ['--readme-only']:
    seeds = []
else:
    seeds = sys.argv[1:] or sorted(d for d in os.listdir(V + '/seeded') if re.match(r'C\d\d-\d+$', d))
head = subprocess.check_output(['git', '-C', '/repo', 'rev-parse', '--short', 'HEAD'], universal_newlines=True).strip()
rows = []
for s in seeds:
    d = os.path.join(V, 'seeded', s)
    prop = s.split('-')[0]
    conf = subprocess.run([V + '/tools/confirm_seed.sh', s], stdout=subprocess.PIPE, stderr=subprocess.STDOUT, universal_newlines=True).stdout
    m = re.search(r"demo-without=(\d+) apply=(\d+) suite='([^']*)' demo-with=(\d+)", conf)
    ev = subprocess.run([V + '/tools/eval_seed.sh', s], stdout=subprocess.PIPE, stderr=subprocess.STDOUT, universal_newlines=True).stdout
    m2 = re.search(r'exit=(\d+) nviol=(\d+); *(.*)', ev)
    notes = ''
    if os.path.exists(os.path.join(d, 'notes.md')):
        notes = open(os.path.join(d, 'notes.md')).read()
    confirmed = bool(m) and m.group(1) == '0' and m.group(2) == '0' and '105 passed' in m.group(3) and m.group(4) != '0'
    meta = {
        'id': s, 'breaks_property': prop, 'repo_head_when_evaluated': head,
        'origin': 'written by an independent sub-agent that was given only the text of the property and a scratch worktree',
        'needs_to_manifest': notes.strip()[:2500],
        'confirmation': {'command': 'tools/confirm_seed.sh %s' % s,
                         'demo_exit_without_change': int(m.group(1)) if m else None,
                         'patch_applies': (m.group(2) == '0') if m else None,
                         'existing_suite_with_change': m.group(3) if m else None,
                         'demo_exit_with_change': int(m.group(4)) if m else None, 'confirmed': confirmed},
        'detection': {'command': 'tools/eval_seed.sh %s  (= ./check %s --tier quick against a scratch worktree with the change)' % (s, prop),
                      'exit': int(m2.group(1)) if m2 else None, 'violation_lines': int(m2.group(2)) if m2 else None,
                      'first_violation': m2.group(3).strip()[:300] if m2 else ev[-300:]},
    }
    with open(os.path.join(d, 'meta.json'), 'w') as f:
        json.dump(meta, f, indent=1)
    rows.append(meta)
    print(s, 'confirmed' if confirmed else 'NOT-CONFIRMED', 'detected' if m2 and m2.group(1) == '1' else 'MISSED' if m2 and m2.group(1) == '0' else 'ERROR')
    sys.stdout.flush()
allmeta = []
for s in sorted(d for d in os.listdir(V + '/seeded') if re.match(r'C\d\d-\d+$', d)):
    p = os.path.join(V, 'seeded', s, 'meta.json')
    if os.path.exists(p):
        allmeta.append(json.load(open(p)))
with open(V + '/seeded/README.md', 'w') as f:
    f.write('# Seeded changes\n\nEach directory holds `patch.diff` (against /repo HEAD), `demo.py` (fails with the change, passes without), '
            '`notes.md` (the seeder\'s description) and `meta.json`. Regenerate with `tools/seed_report.py`.\n\n'
            '| seed | property | confirmed | quick check of that property | first violation reported |\n|---|---|---|---|---|\n')
    for m in allmeta:
        det = m['detection']
        f.write('| %s | %s | %s | %s | %s |\n' % (m['id'], m['breaks_property'], 'yes' if m['confirmation']['confirmed'] else 'no',
                                                 'VIOLATION (exit 1)' if det['exit'] == 1 else ('missed (exit 0)' if det['exit'] == 0 else 'error'),
                                                 (det['first_violation'] or '').replace('|', '/')[:160]))
    f.write('\nRetired seeds (no longer apply to HEAD, or neutralised by a `fix:` commit) are kept under `_retired/` with their '
            'original patch; their detection results at the commit they were written for are listed in DESIGN.md section 9.\n')
