#!/bin/sh
# tools/collect_next.sh <Cxx>: like collect_seed.sh, numbering the two variants after the highest number used so far
P=$1
M=$(ls /verif/seeded /verif/seeded/_retired 2>/dev/null | grep "^$P-" | sed "s/^$P-//" | sort -n | tail -1)
M=${M:-0}
sh /verif/tools/collect_seed.sh $P $((M+1)) $((M+2))
echo "$P-$((M+1)) $P-$((M+2))"
