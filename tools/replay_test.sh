#!/bin/sh
# tools/replay_test.sh <seed>: check on seeded tree, then replay its first replay file on the seeded and the unchanged tree
S=$1; P=$(echo $S | cut -d- -f1)
W=$(mktemp -d /tmp/evalseed-XXXXXX); rmdir $W; E=$(mktemp -d /tmp/evx-XXXXXX)
git -C /repo worktree add -q --detach $W HEAD || exit 2
(cd $W && git apply /verif/seeded/$S/patch.diff) || { echo "$S: no apply"; exit 0; }
cd /verif
PBVERIF_REPO=$W PBVERIF_EVIDENCE_DIR=$E ./check $P --tier quick > $E/run.log 2>&1
f=$(grep -m1 '^VIOLATION' $E/run.log | sed 's/.*replay=//')
PBVERIF_REPO=$W PBVERIF_EVIDENCE_DIR=$E ./check $P --replay $f > $E/r1.log 2>&1; a=$?
PBVERIF_EVIDENCE_DIR=$E ./check $P --replay $f > $E/r2.log 2>&1; b=$?
echo "$S: replay on seeded tree exit=$a ($(tail -1 $E/r1.log | sed 's/.*: //')) ; on unchanged tree exit=$b ($(tail -1 $E/r2.log | sed 's/.*: //'))"
git -C /repo worktree remove --force $W; rm -rf $E
