#!/bin/sh
# tools/eval_seed.sh <seed> [property]: apply the seeded change to a scratch worktree of /repo's HEAD, run the
# property's quick check against it (PBVERIF_REPO), remove the worktree.  (Equivalent to applying it to /repo and
# undoing it, but safe to run while other checks use /repo.)
S=$1
P=${2:-$(echo $S | cut -d- -f1)}
W=$(mktemp -d /tmp/evalseed-XXXXXX); rmdir $W
git -C /repo worktree add -q $W HEAD || exit 2
cd $W
if ! git apply /verif/seeded/$S/patch.diff 2>/dev/null; then
  if ! git apply --3way /verif/seeded/$S/patch.diff >/dev/null 2>&1; then echo "$S on $P: PATCH-DOES-NOT-APPLY"; cd /; git -C /repo worktree remove --force $W; exit 0; fi
fi
cd /verif
OUT=$(PBVERIF_REPO=$W PBVERIF_EVIDENCE_DIR=$W/.evidence timeout 1500 ./check $P --tier quick 2>&1)
RC=$?
git -C /repo worktree remove --force $W
echo "$S on $P: exit=$RC nviol=$(echo "$OUT" | grep -c '^VIOLATION'); $(echo "$OUT" | grep -m1 -A1 '^VIOLATION' | tail -1 | cut -c1-200)"
[ $RC -eq 2 ] && echo "$OUT" | tail -5
exit 0
