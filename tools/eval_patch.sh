#!/bin/sh
# tools/eval_patch.sh <patch> <property>: apply a patch to a scratch worktree of /repo HEAD, run the existing suite and the quick check of the property against it
W=$(mktemp -d /tmp/evalseed-XXXXXX); rmdir $W
git -C /repo worktree add -q $W HEAD || exit 2
cd $W; git apply $1 || { echo "$1: PATCH-DOES-NOT-APPLY"; cd /; git -C /repo worktree remove --force $W; exit 0; }
SUITE=$(/venv/bin/python -m pytest -q -p no:cacheprovider --timeout=900 --continue-on-collection-errors tests 2>&1 | tail -1)
cd /verif
OUT=$(PBVERIF_REPO=$W PBVERIF_EVIDENCE_DIR=$W/.evidence timeout 1500 ./check $2 --tier quick 2>&1)
RC=$?
git -C /repo worktree remove --force $W
echo "$(basename $1) on $2: suite='$SUITE' exit=$RC nviol=$(echo "$OUT" | grep -c '^VIOLATION'); $(echo "$OUT" | grep -m1 -A1 '^VIOLATION' | tail -1 | cut -c1-250)"
[ $RC -eq 2 ] && echo "$OUT" | tail -5
exit 0
